//go:build verif

package fsm

import metadb "github.com/WuKongIM/WuKongIM/pkg/db/meta"

// VerifC40DecodeMessageEventCommand decodes a slot command with the FSM's own
// decoder and returns the message events it carries (nil, false for any other
// command).  Used by the /verif C40 harness' recording proposer.
func VerifC40DecodeMessageEventCommand(data []byte) ([]metadb.MessageEventAppend, bool, error) {
	decoded, err := decodeCommand(data)
	if err != nil {
		return nil, false, err
	}
	switch c := decoded.(type) {
	case *appendMessageEventCmd:
		return []metadb.MessageEventAppend{c.event}, true, nil
	case *appendMessageEventsBatchCmd:
		return append([]metadb.MessageEventAppend(nil), c.events...), true, nil
	default:
		return nil, false, nil
	}
}
