//go:build verif

package codec

import "github.com/WuKongIM/WuKongIM/pkg/protocol/frame"

// VerifEncodedFrameSize exposes the size precomputation used by EncodeFrame to the /verif harness (C22).
func VerifEncodedFrameSize(f frame.Frame, version uint8) int { return encodedFrameSize(f, version) }
