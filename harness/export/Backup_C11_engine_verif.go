//go:build verif

package engine

// Seam for the /verif C11 harness: open Pebble with the options Open computes, on an
// in-memory file system (hundreds of short-lived stores per run).

import (
	"github.com/cockroachdb/pebble/v2"
	"github.com/cockroachdb/pebble/v2/vfs"
)

type verifC11QuietLogger struct{}

func (verifC11QuietLogger) Infof(string, ...interface{})  {}
func (verifC11QuietLogger) Errorf(string, ...interface{}) {}
func (verifC11QuietLogger) Fatalf(format string, args ...interface{}) {
	panic("pebble fatal: " + format)
}

// VerifC11OpenMem is Open on a fresh in-memory file system.
func VerifC11OpenMem(opts Options) (*DB, error) {
	popts := pebbleOptions(opts)
	popts.FS = vfs.NewMem()
	popts.Logger = verifC11QuietLogger{}
	pdb, err := pebble.Open("db", popts)
	if err != nil {
		return nil, err
	}
	return &DB{pdb: pdb}, nil
}
