//go:build verif

package fsm

import (
	"errors"
	"sort"

	metadb "github.com/WuKongIM/WuKongIM/pkg/db/meta"
)

// Re-exports for the /verif harness of C13 / C39 (slot state machine, model SlotFSM).

// VerifC13Decoded is what decodeCommand made of a payload, for the four
// hash-slot migration command types; other types only report Kind.
type VerifC13Decoded struct {
	// Err: 0 decoded, 1 ErrCorruptValue, 2 ErrInvalidArgument, 3 other error.
	Err int
	// Kind: 0 other command type, 1 apply_delta, 2 enter_fence, 3 ack, 4 cleanup.
	Kind int
	// F are the numeric fields in declaration order of the command struct.
	F [4]uint64
	// Orig is applyDeltaCmd.OriginalCmd.
	Orig []byte
}

// VerifC13Decode runs decodeCommand.
func VerifC13Decode(data []byte) VerifC13Decoded {
	cmd, err := decodeCommand(data)
	if err != nil {
		switch {
		case errors.Is(err, metadb.ErrCorruptValue):
			return VerifC13Decoded{Err: 1}
		case errors.Is(err, metadb.ErrInvalidArgument):
			return VerifC13Decoded{Err: 2}
		default:
			return VerifC13Decoded{Err: 3}
		}
	}
	switch c := cmd.(type) {
	case *applyDeltaCmd:
		return VerifC13Decoded{Kind: 1, F: [4]uint64{uint64(c.SourceSlotID), c.SourceIndex, uint64(c.HashSlot), 0}, Orig: c.OriginalCmd}
	case *enterFenceCmd:
		return VerifC13Decoded{Kind: 2, F: [4]uint64{uint64(c.HashSlot), uint64(c.Target), 0, 0}}
	case *ackMigrationOutboxCmd:
		return VerifC13Decoded{Kind: 3, F: [4]uint64{uint64(c.HashSlot), uint64(c.SourceSlot), uint64(c.TargetSlot), c.SourceIndex}}
	case *cleanupMigrationOutboxCmd:
		return VerifC13Decoded{Kind: 4, F: [4]uint64{uint64(c.HashSlot), uint64(c.SourceSlot), uint64(c.TargetSlot), c.ThroughIndex}}
	default:
		return VerifC13Decoded{}
	}
}

// VerifC13CommandTypes lists the registered command type bytes in ascending order.
func VerifC13CommandTypes() []uint8 {
	out := make([]uint8, 0, len(commandDecoders))
	for k := range commandDecoders {
		out = append(out, k)
	}
	sort.Slice(out, func(i, j int) bool { return out[i] < out[j] })
	return out
}

// Wire constants of the command envelope and of the migration commands.
const (
	VerifC13CommandVersion             = commandVersion
	VerifC13HeaderSize                 = headerSize
	VerifC13TLVOverhead                = tlvOverhead
	VerifC13CmdTypeApplyDelta          = cmdTypeApplyDelta
	VerifC13CmdTypeEnterFence          = cmdTypeEnterFence
	VerifC13CmdTypeAckMigrationOutbox  = cmdTypeAckMigrationOutbox
	VerifC13CmdTypeCleanupOutbox       = cmdTypeCleanupMigrationOutbox
	VerifC13TagApplyDeltaSourceSlotID  = tagApplyDeltaSourceSlotID
	VerifC13TagApplyDeltaSourceIndex   = tagApplyDeltaSourceIndex
	VerifC13TagApplyDeltaHashSlot      = tagApplyDeltaHashSlot
	VerifC13TagApplyDeltaOriginalCmd   = tagApplyDeltaOriginalCmd
	VerifC13TagEnterFenceHashSlot      = tagEnterFenceHashSlot
	VerifC13TagEnterFenceTarget        = tagEnterFenceTarget
	VerifC13TagMigrationOutboxHashSlot = tagMigrationOutboxHashSlot
	VerifC13TagMigrationOutboxSource   = tagMigrationOutboxSourceSlot
	VerifC13TagMigrationOutboxTarget   = tagMigrationOutboxTargetSlot
	VerifC13TagMigrationOutboxIndex    = tagMigrationOutboxSourceIndex
	VerifC13PhaseSnapshot              = uint8(migrationPhaseSnapshot)
	VerifC13PhaseDelta                 = uint8(migrationPhaseDelta)
	VerifC13PhaseSwitching             = uint8(migrationPhaseSwitching)
	VerifC13PhaseDone                  = uint8(migrationPhaseDone)
)
