//go:build verif

package raftlog

// Hooks for the /verif C14 harness (DB.writeCommitTestHook already exists in
// the package; this file only makes it reachable from outside).

// VerifSetWriteCommitHook installs f as DB.writeCommitTestHook. Call it right
// after Open, before the first write.
func VerifSetWriteCommitHook(db *DB, f func() error) { db.writeCommitTestHook = f }

// VerifWriteQueueLen reports how many write requests wait in DB.writeCh.
func VerifWriteQueueLen(db *DB) int { return len(db.writeCh) }
