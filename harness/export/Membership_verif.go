//go:build verif

package meta

// Re-exports for the /verif harness of C16 (per-user conversation rows).

// VerifResolveUserChannelMembership exposes the membership upsert resolver.
func VerifResolveUserChannelMembership(existing UserChannelMembership, exists bool, next UserChannelMembership) UserChannelMembership {
	return resolveUserChannelMembership(existing, exists, next)
}

// VerifResolveEnsuredUserChannelMembership exposes the ensure (projection) resolver.
func VerifResolveEnsuredUserChannelMembership(existing UserChannelMembership, exists bool, incoming UserChannelMembership) UserChannelMembership {
	return resolveEnsuredUserChannelMembership(existing, exists, incoming)
}

// VerifResolveUserCMDChannelMembership exposes the CMD binding resolver.
func VerifResolveUserCMDChannelMembership(existing UserCMDChannelMembership, exists bool, next UserCMDChannelMembership) UserCMDChannelMembership {
	return resolveUserCMDChannelMembership(existing, exists, next)
}

// VerifMembershipMaxKeyStringLen is the key-string length limit of validateKeyString.
const VerifMembershipMaxKeyStringLen = maxKeyStringLen
