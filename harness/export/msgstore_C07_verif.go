//go:build verif

package message

// Re-exports for the /verif C07 / C08 / C09 harnesses (injected by the build
// overlay only; nothing of this file exists in /repo).

import (
	"bytes"
	"context"
	"encoding/binary"

	"github.com/WuKongIM/WuKongIM/pkg/db/internal/commit"
	"github.com/WuKongIM/WuKongIM/pkg/db/internal/engine"
	"github.com/WuKongIM/WuKongIM/pkg/db/internal/keycodec"
	channel "github.com/WuKongIM/WuKongIM/pkg/db/message/channelcompat"
)

// VerifDB returns the typed message domain behind the compatibility engine, so
// that one physical store can be driven through both APIs.
func (e *Engine) VerifDB() *MessageDB {
	e.mu.Lock()
	defer e.mu.Unlock()
	return e.db
}

// VerifNewEngine wraps an already opened physical engine exactly like
// OpenWithLogger does (C09 opens Pebble on a crash-simulating vfs.FS).
func VerifNewEngine(eng *engine.DB) *Engine {
	cfg := effectiveCommitCoordinatorConfig(CommitCoordinatorConfig{})
	return &Engine{
		db:        NewDB(eng),
		engine:    eng,
		commitCfg: cfg,
		committer: commit.NewCoordinator(eng, commitCoordinatorConfig(cfg)),
	}
}

// VerifCompatRow is the input of VerifCompatRecord.
type VerifCompatRow struct {
	MessageID         uint64
	FramerFlags       uint8
	Setting           uint8
	ClientMsgNo       string
	FromUID           string
	ChannelID         string
	ChannelType       uint8
	Payload           []byte
	ServerTimestampMS int64
}

// VerifCompatRecord encodes one row with the production compatibility codec.
func VerifCompatRecord(in VerifCompatRow) (channel.Record, error) {
	return compatibilityRecordFromRow(messageRow{
		MessageID: in.MessageID, FramerFlags: in.FramerFlags, Setting: in.Setting,
		ClientMsgNo: in.ClientMsgNo, FromUID: in.FromUID, ChannelID: in.ChannelID,
		ChannelType: in.ChannelType, Payload: in.Payload, ServerTimestampMS: in.ServerTimestampMS,
	})
}

// Constants the Coq model depends on.
const (
	VerifFNVOffset               uint64 = fnv64aOffset
	VerifFNVPrime                uint64 = fnv64aPrime
	VerifFilterPrimaryWords             = idempotencyMembershipPrimaryWords
	VerifFilterOverflowWords            = idempotencyMembershipOverflowWords
	VerifFilterPrimaryCapacity          = idempotencyMembershipPrimaryCapacity
	VerifFilterHashCount                = idempotencyMembershipHashCount
	VerifAppendStrict                   = uint8(AppendStrict)
	VerifAppendServerAllocated          = uint8(AppendServerAllocatedMessageID)
	VerifAppendTrustedContiguous        = uint8(AppendTrustedContiguous)
	VerifSyncOnceFlag            uint8  = 4
	VerifDefaultWarmEntries             = defaultChannelWarmCacheEntries
)

// VerifHashPayload is the persisted payload hash function.
func VerifHashPayload(p []byte) uint64 { return hashPayload(p) }

// VerifFilterStats reports the size of a channel's live membership filter.
func (l *ChannelLog) VerifFilterStats() (loaded bool, primaryAdds uint32, overflow bool) {
	l.appendMu.Lock()
	defer l.appendMu.Unlock()
	return l.idempotencyMembershipLoaded, l.idempotencyMembership.primaryAdds, len(l.idempotencyMembership.overflowBits) > 0
}

// VerifKV is one decoded physical key/value of the message domain.
//
// Fam: "row" (Seq; row fields), "gid" (ID -> Chan2, Seq), "cidx" (S1=cno, Seq),
// "idem" (S1=cno, S2=uid -> Seq, ID, Hash), "sseq" (S1=uid, Seq -> ID),
// "ckpt" (A=epoch, B=logStart, C=hw), "ret" (A=local, B=physical, C=retainedMax),
// "hist" (A=startOffset, B=epoch), "cat" (S1=channel id, A=type),
// "plast" (A=lastOffset), "pcmd", "ident" (A=index), "sys" (A=system id),
// "latest", "other".
type VerifKV struct {
	Fam     string
	Chan    string
	Seq     uint64
	ID      uint64
	S1, S2  string
	A, B, C uint64
	Chan2   string
	Hash    uint64
	Flags   uint8
	Payload []byte
	TS      int64
	ChType  uint8
	Bad     bool // value or key did not decode
}

// VerifDumpKV decodes every key of the message domain of the physical store.
// Keys of channels not listed in chans are reported with Fam "other".
func (db *MessageDB) VerifDumpKV(chans []ChannelKey) ([]VerifKV, error) {
	if err := db.beginUse(); err != nil {
		return nil, err
	}
	defer db.endUse()
	return verifDumpEngine(db.engine, chans)
}

func verifDumpEngine(eng *engine.DB, chans []ChannelKey) ([]VerifKV, error) {
	all := keycodec.NewPrefixSpan([]byte{byte(keycodec.DomainMessage)})
	iter, err := eng.NewIter(engine.Span{Start: all.Start, End: all.End}, engine.IterOptions{})
	if err != nil {
		return nil, err
	}
	defer iter.Close()
	var out []VerifKV
	for ok := iter.First(); ok; ok = iter.Next() {
		key := iter.Key()
		value, err := iter.Value()
		if err != nil {
			return nil, err
		}
		out = append(out, verifDecodeKV(chans, key, value))
	}
	return out, iter.Error()
}

func verifDecodeKV(chans []ChannelKey, key, value []byte) VerifKV {
	if id, ok := decodeGlobalMessageIDIndexKey(key); ok {
		ck, seq, err := decodeGlobalMessageIDIndexValue(value)
		return VerifKV{Fam: "gid", ID: id, Chan2: string(ck), Seq: seq, Bad: err != nil}
	}
	if ck, ok := decodeCatalogKey(key); ok {
		id, err := decodeCatalogValue(value)
		return VerifKV{Fam: "cat", Chan: string(ck), S1: id.ID, A: uint64(id.Type), Bad: err != nil}
	}
	if bytes.Equal(key, encodeGlobalLatestIndexStateKey()) || bytes.Equal(key, encodeGlobalLatestIndexProgressKey()) {
		return VerifKV{Fam: "latest"}
	}
	for _, ck := range chans {
		if !bytes.HasPrefix(key, encodeMessageChannelPartitionPrefix(ck)) {
			continue
		}
		if seq, fam, ok := decodeMessageRowKey(ck, key); ok {
			if fam != messageHeaderFamilyID {
				return VerifKV{Fam: "other", Chan: string(ck), Seq: seq}
			}
			row := messageRow{MessageSeq: seq}
			err := decodeMessageHeader(key, value, &row)
			return VerifKV{Fam: "row", Chan: string(ck), Seq: seq, ID: row.MessageID, S1: row.ClientMsgNo, S2: row.FromUID,
				Chan2: row.ChannelID, ChType: row.ChannelType, Hash: row.PayloadHash, Flags: row.FramerFlags,
				Payload: row.Payload, TS: row.ServerTimestampMS, A: row.PayloadSize, Bad: err != nil}
		}
		if p := encodeMessageIndexPrefix(ck, messageIndexIDClientMsgNo); bytes.HasPrefix(key, p) {
			s, rest, err := keycodec.ReadString(key[len(p):])
			if err != nil || len(rest) != 8 {
				return VerifKV{Fam: "cidx", Chan: string(ck), Bad: true}
			}
			v, verr := decodeMessageIDIndexValue(value)
			return VerifKV{Fam: "cidx", Chan: string(ck), S1: s, Seq: binary.BigEndian.Uint64(rest), A: v, Bad: verr != nil}
		}
		if p := encodeMessageIndexPrefix(ck, messageIndexIDFromUIDClientMsgNo); bytes.HasPrefix(key, p) {
			cno, rest, err := keycodec.ReadString(key[len(p):])
			if err != nil {
				return VerifKV{Fam: "idem", Chan: string(ck), Bad: true}
			}
			uid, rest2, err := keycodec.ReadString(rest)
			if err != nil || len(rest2) != 0 {
				return VerifKV{Fam: "idem", Chan: string(ck), Bad: true}
			}
			hit, verr := decodeIdempotencyIndexValue(value)
			return VerifKV{Fam: "idem", Chan: string(ck), S1: cno, S2: uid, Seq: hit.MessageSeq, ID: hit.MessageID, Hash: hit.PayloadHash, Bad: verr != nil}
		}
		if p := encodeMessageIndexPrefix(ck, messageIndexIDFromUIDMessageSeq); bytes.HasPrefix(key, p) {
			uid, rest, err := keycodec.ReadString(key[len(p):])
			if err != nil || len(rest) != 8 {
				return VerifKV{Fam: "sseq", Chan: string(ck), Bad: true}
			}
			v, verr := decodeMessageIDIndexValue(value)
			return VerifKV{Fam: "sseq", Chan: string(ck), S1: uid, Seq: binary.BigEndian.Uint64(rest), ID: v, Bad: verr != nil}
		}
		if bytes.Equal(key, encodeCheckpointKey(ck)) {
			c, err := decodeCheckpoint(value)
			return VerifKV{Fam: "ckpt", Chan: string(ck), A: c.Epoch, B: c.LogStartOffset, C: c.HW, Bad: err != nil}
		}
		if bytes.Equal(key, encodeRetentionStateKey(ck)) {
			s, err := decodeRetentionState(value)
			return VerifKV{Fam: "ret", Chan: string(ck), A: s.LocalRetentionThroughSeq, B: s.PhysicalRetentionThroughSeq, C: s.RetainedMaxSeq, Bad: err != nil}
		}
		if p := encodeHistoryPrefix(ck); bytes.HasPrefix(key, p) {
			pt, err := decodeEpochPointFromKeyValue(ck, key, func() ([]byte, error) { return value, nil })
			return VerifKV{Fam: "hist", Chan: string(ck), A: pt.StartOffset, B: pt.Epoch, Bad: err != nil}
		}
		if last, ok := decodeProposalByLastKey(ck, key); ok {
			return VerifKV{Fam: "plast", Chan: string(ck), A: last}
		}
		if _, ok := decodeProposalByCommandKey(ck, key); ok {
			rec, err := decodeDurableProposalRecord(value)
			return VerifKV{Fam: "pcmd", Chan: string(ck), A: rec.manifest.LastOffset, B: rec.manifest.BaseOffset, Bad: err != nil}
		}
		if idx, ok := decodeEntryIdentityKey(ck, key); ok {
			return VerifKV{Fam: "ident", Chan: string(ck), A: idx}
		}
		return VerifKV{Fam: "sys", Chan: string(ck)}
	}
	return VerifKV{Fam: "other"}
}

// VerifDumpEngine is VerifDumpKV on a bare physical engine (C09 recovery check).
func VerifDumpEngine(eng *engine.DB, chans []ChannelKey) ([]VerifKV, error) {
	return verifDumpEngine(eng, chans)
}

var _ = context.Background

// VerifMessageEngineOptions are the physical options of message.Open.
func VerifMessageEngineOptions() engine.Options { return messageEngineOptions(nil) }
