//go:build verif

package wire

// VerifHeaderOffsets exposes the unexported header field offsets to the /verif
// harness (regenerated into coq/Gen/Consts_C26.v on every run).
func VerifHeaderOffsets() map[string]int {
	return map[string]int{
		"headerMagicOffset":     headerMagicOffset,
		"headerVersionOffset":   headerVersionOffset,
		"headerFlagsOffset":     headerFlagsOffset,
		"headerKindOffset":      headerKindOffset,
		"headerPriorityOffset":  headerPriorityOffset,
		"headerServiceIDOffset": headerServiceIDOffset,
		"headerRequestIDOffset": headerRequestIDOffset,
		"headerBodyLenOffset":   headerBodyLenOffset,
		"headerReservedOffset":  headerReservedOffset,
	}
}

// VerifBodyExceedsMax exposes bodyExceedsMax.
func VerifBodyExceedsMax(bodyLen uint32, maxBodyBytes int) bool {
	return bodyExceedsMax(bodyLen, maxBodyBytes)
}
