//go:build verif

package reactor

import (
	"context"
	"errors"
	"time"

	ch "github.com/WuKongIM/WuKongIM/pkg/channel"
	"github.com/WuKongIM/WuKongIM/pkg/channel/machine"
	"github.com/WuKongIM/WuKongIM/pkg/channel/store"
	"github.com/WuKongIM/WuKongIM/pkg/channel/worker"
)

// VerifC10TrimDecision exposes retentionTrimDecision.
func VerifC10TrimDecision(st *machine.ChannelState, throughSeq uint64) (bool, string) {
	return retentionTrimDecision(st, throughSeq)
}

// VerifC10MinISRMatchOffset exposes minISRMatchOffset.
func VerifC10MinISRMatchOffset(st *machine.ChannelState) uint64 {
	return minISRMatchOffset(st)
}

// ErrVerifC10Timeout reports that a worker result did not arrive.
var ErrVerifC10Timeout = errors.New("verif: worker result timeout")

type verifC10Sink struct{ results chan worker.Result }

func (s verifC10Sink) Complete(result worker.Result) { s.results <- result }

// VerifC10Rig is one loaded channel runtime inside a standalone reactor whose
// worker pools are the real ones (real runStoreRetention / runStoreCheckpoint
// against the given store factory). Worker completions are captured and fed
// back into the reactor's own result handlers by the rig, one at a time, which
// is what the reactor goroutine does with its mailbox.
type VerifC10Rig struct {
	r     *Reactor
	rc    *runtimeChannel
	sink  verifC10Sink
	pools *worker.Pools
	cs    store.ChannelStore
}

// VerifC10NewRig installs st as the state of a freshly loaded runtime.
func VerifC10NewRig(factory store.Factory, st *machine.ChannelState) (*VerifC10Rig, error) {
	sink := verifC10Sink{results: make(chan worker.Result, 16)}
	pools, err := worker.NewPools(worker.PoolsConfig{
		StoreAppend: worker.PoolConfig{Name: "append", Workers: 1, QueueSize: 8},
		StoreRead:   worker.PoolConfig{Name: "read", Workers: 1, QueueSize: 8},
		StoreApply:  worker.PoolConfig{Name: "apply", Workers: 1, QueueSize: 8},
		RPC:         worker.PoolConfig{Name: "rpc", Workers: 1, QueueSize: 8},
	}, worker.Deps{LocalNode: st.LocalNode, Stores: factory}, sink)
	if err != nil {
		return nil, err
	}
	cs, err := factory.ChannelStore(st.Key, st.ID)
	if err != nil {
		_ = pools.Close()
		return nil, err
	}
	r := NewReactor(ReactorConfig{ID: 0, LocalNode: st.LocalNode, Store: factory, Pools: pools, MailboxSize: 16})
	rc := &runtimeChannel{state: st, store: cs}
	r.resetLoadedRuntimeStructures(rc, time.Now(), st.LEO)
	r.channels[st.Key] = rc
	return &VerifC10Rig{r: r, rc: rc, sink: sink, pools: pools, cs: cs}, nil
}

// State returns the live channel state owned by the rig's reactor.
func (g *VerifC10Rig) State() *machine.ChannelState { return g.rc.state }

// Close stops the pools and releases the runtime's store handle.
func (g *VerifC10Rig) Close() {
	_ = g.pools.Close()
	_ = g.cs.Close()
}

func (g *VerifC10Rig) await() (worker.Result, error) {
	select {
	case res := <-g.sink.results:
		return res, nil
	case <-time.After(20 * time.Second):
		return worker.Result{}, ErrVerifC10Timeout
	}
}

// VerifC10ApplyOutcome is what one ApplyRetentionBoundary event produced.
type VerifC10ApplyOutcome struct {
	Result ch.RetentionApplyResult
	Err    error
	// CheckpointSubmitted reports that trySubmitRetentionCheckpoint queued a checkpoint task.
	CheckpointSubmitted bool
	// StoreTask reports that a store retention task was submitted (not a no-op / early error).
	StoreTask bool
	// TrimAllowed is the task's TrimAllowed flag when StoreTask.
	TrimAllowed bool
}

// Apply runs handleApplyRetentionBoundary for req and then drains the worker
// completions it caused through handleWorkerResult (retention result first,
// then the retention-owned checkpoint result: they touch disjoint state).
func (g *VerifC10Rig) Apply(req ch.RetentionApplyRequest) VerifC10ApplyOutcome {
	out := VerifC10ApplyOutcome{}
	future := NewFuture()
	before := g.rc.retentionCheckpointOp
	g.r.handleApplyRetentionBoundary(Event{Kind: EventApplyRetentionBoundary, Key: g.rc.state.Key, Future: future,
		Context: context.Background(), RetentionApply: req})
	out.CheckpointSubmitted = g.rc.retentionCheckpointOp != 0 && g.rc.retentionCheckpointOp != before
	pending := len(g.rc.retentionWaiters)
	if out.CheckpointSubmitted {
		pending++
	}
	var results []worker.Result
	for i := 0; i < pending; i++ {
		res, err := g.await()
		if err != nil {
			out.Err = err
			return out
		}
		results = append(results, res)
	}
	for _, kind := range []worker.TaskKind{worker.TaskStoreRetention, worker.TaskStoreCheckpoint} {
		for _, res := range results {
			if res.Kind != kind {
				continue
			}
			if kind == worker.TaskStoreRetention {
				out.StoreTask = true
				if res.StoreRetention != nil {
					out.TrimAllowed = res.StoreRetention.TrimAllowed
				}
			}
			g.r.handleWorkerResult(Event{Kind: EventWorkerResult, Worker: res})
		}
	}
	select {
	case <-future.Done():
		r := future.Result()
		out.Result, out.Err = r.RetentionApply, r.Err
	default:
		out.Err = ErrVerifC10Timeout
	}
	return out
}

// Checkpoint stores a checkpoint through the reactor's own checkpoint effect
// (submitStoreCheckpoint -> runStoreCheckpoint -> handleStoreCheckpointResult).
func (g *VerifC10Rig) Checkpoint(hw uint64) error {
	st := g.rc.state
	opID := g.r.nextOpID()
	fence := ch.Fence{ChannelKey: st.Key, Generation: st.Generation, Epoch: st.Epoch, LeaderEpoch: st.LeaderEpoch, OpID: opID}
	if err := g.r.submitStoreCheckpoint(context.Background(), st.ID, fence, ch.Checkpoint{HW: hw}); err != nil {
		return err
	}
	res, err := g.await()
	if err != nil {
		return err
	}
	g.r.handleWorkerResult(Event{Kind: EventWorkerResult, Worker: res})
	return res.Err
}

// View returns retentionViewFromChannel for the rig's channel.
func (g *VerifC10Rig) View() ch.RetentionView { return retentionViewFromChannel(g.rc) }
