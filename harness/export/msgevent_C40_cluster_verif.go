//go:build verif

package cluster

import (
	"context"
	"time"

	"github.com/WuKongIM/WuKongIM/pkg/cluster/control"
	"github.com/WuKongIM/WuKongIM/pkg/cluster/propose"
	"github.com/WuKongIM/WuKongIM/pkg/cluster/routing"
	metadb "github.com/WuKongIM/WuKongIM/pkg/db/meta"
)

// Seams for the /verif harness of C40 (leader-side message event stream cache
// and the finish path).  VerifC40Node is a skeletal *Node: only the fields the
// message event append path reads are populated (router with an installed
// table, the stream cache, the optional finish coalescer, a proposer and the
// started flag).  Every operation below runs the unmodified methods of Node /
// messageEventStreamCache.

// VerifC40Proposer is what the skeletal node proposes durable commands to.
type VerifC40Proposer interface {
	Propose(context.Context, propose.Request) error
	ProposeResult(context.Context, propose.Request) ([]byte, error)
}

// VerifC40Node wraps the skeletal node.
type VerifC40Node struct {
	n      *Node
	nodeID uint64
	terms  map[uint32]uint64
}

// VerifC40NewNode builds a skeletal node owning hash slots 0..hashSlotCount-1,
// hash slot i being served by Slot i+1 whose leader is this node.
func VerifC40NewNode(nodeID uint64, hashSlotCount uint16, maxSessions int, coalesceWindow time.Duration, proposer VerifC40Proposer) (*VerifC40Node, error) {
	n := &Node{
		cfg:                         Config{NodeID: nodeID},
		router:                      routing.NewRouter(),
		messageEventStreamCache:     newMessageEventStreamCache(maxSessions),
		messageEventFinishCoalescer: newMessageEventFinishCoalescer(coalesceWindow),
	}
	n.proposer = proposer
	snapshot := control.Snapshot{
		Revision: 1,
		Nodes:    []control.Node{{NodeID: nodeID, Roles: []control.Role{control.RoleData}}, {NodeID: nodeID + 1, Roles: []control.Role{control.RoleData}}},
		HashSlots: control.HashSlotTable{
			Revision: 1,
			Count:    hashSlotCount,
		},
	}
	status := make([]routing.SlotStatus, 0, hashSlotCount)
	terms := make(map[uint32]uint64)
	for hs := uint16(0); hs < hashSlotCount; hs++ {
		slotID := uint32(hs) + 1
		snapshot.Slots = append(snapshot.Slots, control.SlotAssignment{SlotID: slotID, DesiredPeers: []uint64{nodeID, nodeID + 1}, ConfigEpoch: 1})
		snapshot.HashSlots.Ranges = append(snapshot.HashSlots.Ranges, control.HashSlotRange{From: hs, To: hs, SlotID: slotID})
		status = append(status, routing.SlotStatus{SlotID: slotID, Leader: nodeID, LeaderTerm: 1})
		terms[slotID] = 1
	}
	v := &VerifC40Node{n: n, nodeID: nodeID, terms: terms}
	if err := n.updateRouteAuthorityTable(func() error {
		if err := n.router.UpdateControlSnapshot(snapshot); err != nil {
			return err
		}
		n.router.UpdateSlotLeaders(status)
		return nil
	}); err != nil {
		return nil, err
	}
	n.started.Store(true)
	return v, nil
}

// Append runs Node.appendMessageEventLocal (the leader-side entry point).
func (v *VerifC40Node) Append(ctx context.Context, event metadb.MessageEventAppend) (metadb.MessageEventAppendResult, error) {
	return v.n.appendMessageEventLocal(ctx, event)
}

// SetSlotLeader installs an observed Slot leader through the same serialized
// router mutation + publication path the node uses (which clears the stream
// cache of hash slots whose local authority is lost).
func (v *VerifC40Node) SetSlotLeader(slotID uint32, local bool) error {
	leader := v.nodeID
	if !local {
		leader = v.nodeID + 1
	}
	v.terms[slotID]++
	term := v.terms[slotID]
	return v.n.updateRouteAuthorityTable(func() error {
		v.n.router.UpdateSlotLeaders([]routing.SlotStatus{{SlotID: slotID, Leader: leader, LeaderTerm: term}})
		return nil
	})
}

// ResetRestore runs Node.ResetLocalRestoreCaches.
func (v *VerifC40Node) ResetRestore() { v.n.ResetLocalRestoreCaches() }

// PauseRestore / ResumeRestore run the cache half of Pause/ResumeLocalRestoreRuntime.
func (v *VerifC40Node) PauseRestore()  { v.n.messageEventStreamCache.pauseForRestore() }
func (v *VerifC40Node) ResumeRestore() { v.n.messageEventStreamCache.resumeAfterRestore() }

// CacheStates returns the cached lanes of one message.
func (v *VerifC40Node) CacheStates(key metadb.MessageEventMessageKey) []metadb.MessageEventState {
	return v.n.messageEventStreamCache.states(key)
}

// CacheObservation returns the cache gauges.
func (v *VerifC40Node) CacheObservation() MessageEventStreamCacheObservation {
	return v.n.messageEventStreamCache.observation()
}

// VerifC40MergeTerminalPayload exposes mergeMessageEventTerminalPayload.
func VerifC40MergeTerminalPayload(payload []byte, snapshot []byte) []byte {
	return mergeMessageEventTerminalPayload(payload, snapshot)
}

// VerifC40PayloadHasSnapshot exposes messageEventPayloadHasSnapshot.
func VerifC40PayloadHasSnapshot(payload []byte) bool { return messageEventPayloadHasSnapshot(payload) }

// VerifC40FinishFlushEventID exposes finishFlushMessageEventID.
func VerifC40FinishFlushEventID(finishEventID string, eventKey string) string {
	return finishFlushMessageEventID(finishEventID, eventKey)
}

// VerifC40DefaultMaxSessions is the cache's default session limit.
const VerifC40DefaultMaxSessions = defaultMessageEventStreamCacheMaxSessions
