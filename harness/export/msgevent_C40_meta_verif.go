//go:build verif

package meta

import "context"

// Re-exports for the /verif harness of C40 (message event projection).

// VerifC40ReduceMessageEventAppend exposes the pure durable reducer.
func VerifC40ReduceMessageEventAppend(state MessageEventState, stateExists bool, cursor MessageEventCursor, cursorExists bool, event MessageEventAppend) (MessageEventState, MessageEventCursor, bool, MessageEventAppendResult) {
	return reduceMessageEventAppend(state, stateExists, cursor, cursorExists, event)
}

// VerifC40ReduceMessageEventDelta exposes the text-delta reducer.
func VerifC40ReduceMessageEventDelta(existing []byte, payload []byte) []byte {
	return reduceMessageEventDelta(existing, payload)
}

// VerifC40NormalizeMessageEventAppend exposes the append normalizer.
func VerifC40NormalizeMessageEventAppend(event MessageEventAppend) (MessageEventAppend, error) {
	return normalizeMessageEventAppend(event)
}

// VerifC40ResultFromApplied exposes the replay-result builder.
func VerifC40ResultFromApplied(event MessageEventAppend, applied MessageEventApplied, state MessageEventState, stateExists bool) MessageEventAppendResult {
	return messageEventAppendResultFromApplied(event, applied, state, stateExists)
}

// VerifC40IsMessageEventTerminal exposes the status classifier.
func VerifC40IsMessageEventTerminal(status string) bool { return isMessageEventTerminal(status) }

// VerifC40MessageEventCursor reads the per-message cursor row.
func VerifC40MessageEventCursor(ctx context.Context, s *Shard, channelID string, channelType int64, clientMsgNo string) (MessageEventCursor, bool, error) {
	return messageEventCursorTable.Get(ctx, s, messageEventCursorPrimaryKey(channelID, channelType, clientMsgNo))
}

// VerifC40MessageEventAppliedRows lists the idempotency rows of one message.
func VerifC40MessageEventAppliedRows(ctx context.Context, s *Shard, channelID string, channelType int64, clientMsgNo string) ([]MessageEventApplied, error) {
	rows, _, _, err := messageEventAppliedTable.ScanPrimaryPrefix(ctx, s, KeyParts{String(channelID), Int64Ordered(channelType), String(clientMsgNo)}, nil, 0)
	return rows, err
}

// VerifC40MaxKeyStringLen is the key-string length limit of validateKeyString.
const VerifC40MaxKeyStringLen = maxKeyStringLen
