//go:build verif

package backup

// Re-export for the /verif C38 harness: the read-back bound PublishArchive uses.
const VerifMaxArchiveManifestBytes = maxArchiveManifestBytes
