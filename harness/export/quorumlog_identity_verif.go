//go:build verif

package quorumlog

import (
	_ "embed"
	"regexp"
	"strconv"
)

// VerifDigestProposalEntry exposes the unexported entry digest to the /verif harness.
func VerifDigestProposalEntry(entry EntryIdentity, record Record) EntryDigest {
	return digestProposalEntry(entry, record)
}

// The digest's domain-separation string is a literal inside digestProposalEntry;
// it is read back from the source file the binary was compiled from, so that
// Gen/Consts_C05.v carries the string of today's tree.
//
//go:embed proposal.go
var verifProposalSource string

var verifDomainRe = regexp.MustCompile(`hash\.Write\(\[\]byte\(("(?:[^"\\]|\\.)*")\)\)`)

// VerifDomainLiterals returns every string literal written to the hash as
// []byte("...") in proposal.go, in source order.
func VerifDomainLiterals() []string {
	var out []string
	for _, m := range verifDomainRe.FindAllStringSubmatch(verifProposalSource, -1) {
		s, err := strconv.Unquote(m[1])
		if err != nil {
			continue
		}
		out = append(out, s)
	}
	return out
}
