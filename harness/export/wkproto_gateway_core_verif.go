//go:build verif

package core

// VerifSessionState is an opaque handle on one connection's gateway state (C23 harness).
type VerifSessionState struct{ st *sessionState }

// VerifState returns the state of a connection; the handle stays valid after the
// session has been closed and unregistered.
func (s *Server) VerifState(listener string, connID uint64) *VerifSessionState {
	st := s.state(listener, connID)
	if st == nil {
		return nil
	}
	return &VerifSessionState{st: st}
}

// Snapshot returns a copy of the buffered inbound bytes and whether the session is closed.
func (v *VerifSessionState) Snapshot() (inbound []byte, closed bool) {
	v.st.inboundMu.Lock()
	inbound = append([]byte(nil), v.st.inbound...)
	v.st.inboundMu.Unlock()
	return inbound, v.st.isClosed()
}
