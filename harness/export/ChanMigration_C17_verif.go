//go:build verif

package meta

// Re-exports for the /verif harness of C17 (channel migration tasks).

// VerifC17ActiveIndex reads the raw active-task index entry of one channel
// (the value GetActiveChannelMigrationTask / ensureChannelMigrationActiveAvailable
// start from), without the "task still active" filtering of the public reader.
func VerifC17ActiveIndex(db *DB, hashSlot uint16, channelID string, channelType int64) (string, bool, error) {
	if db == nil || db.meta == nil {
		return "", false, ErrInvalidArgument
	}
	value, ok, err := db.meta.get(encodeChannelMigrationActiveIndexKey(HashSlot(hashSlot), channelID, channelType))
	return string(value), ok, err
}

// VerifC17MaxKeyStringLen is the key-string length limit of validateKeyString.
const VerifC17MaxKeyStringLen = maxKeyStringLen
