//go:build verif

package hashslot

import "github.com/WuKongIM/WuKongIM/pkg/slot/multiraft"

// Re-exports of unexported planner helpers for the /verif C20 harness.

// VerifEncodingVersion is the wire version Encode writes.
const VerifEncodingVersion = hashSlotTableEncodingVersion

// VerifIdealSlotCounts exposes idealSlotCounts.
func VerifIdealSlotCounts(total int, slots []multiraft.SlotID) map[multiraft.SlotID]int {
	return idealSlotCounts(total, slots)
}

// VerifSelectLargestSurplusSlot exposes selectLargestSurplusSlot.
func VerifSelectLargestSurplusSlot(current, target map[multiraft.SlotID]int, candidates []multiraft.SlotID) multiraft.SlotID {
	return selectLargestSurplusSlot(current, target, candidates)
}

// VerifSelectSmallestDeficitSlot exposes selectSmallestDeficitSlot.
func VerifSelectSmallestDeficitSlot(current, target map[multiraft.SlotID]int, candidates []multiraft.SlotID) multiraft.SlotID {
	return selectSmallestDeficitSlot(current, target, candidates)
}

// VerifTableActiveSlotIDs exposes tableActiveSlotIDs.
func VerifTableActiveSlotIDs(t *HashSlotTable) []multiraft.SlotID { return tableActiveSlotIDs(t) }
