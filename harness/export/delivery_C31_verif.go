//go:build verif

package delivery

import (
	"context"

	"github.com/WuKongIM/WuKongIM/internal/contracts/onlinedelivery"
)

// Re-exports for the /verif C31 harness (injected by the build overlay only).

// Defaults applied by NewRuntime to non-positive options.
const (
	VerifDefaultRuntimeQueueSize      = defaultRuntimeQueueSize
	VerifDefaultRuntimeWorkers        = defaultRuntimeWorkers
	VerifDefaultRuntimePlanRecipients = defaultRuntimePlanRecipients
	VerifDefaultRuntimePushBatchSize  = defaultRuntimePushBatchSize
	VerifDefaultRuntimeOwnerWorkers   = defaultRuntimeOwnerWorkers
	VerifDefaultRuntimeRetryAttempts  = defaultRuntimeRetryAttempts
	VerifNoPlanQueueNode              = noPlanQueueNode
)

// VerifPlanQueue wraps the unexported channel-sharded plan queue.
type VerifPlanQueue struct{ q *orderedPlanQueue }

// VerifNewPlanQueue builds the queue; Nil reports the nil result of non-positive arguments.
func VerifNewPlanQueue(capacity, shards int) *VerifPlanQueue {
	return &VerifPlanQueue{q: newOrderedPlanQueue(capacity, shards)}
}

func (v *VerifPlanQueue) Nil() bool { return v.q == nil }

func (v *VerifPlanQueue) Enqueue(ctx context.Context, acceptDone <-chan struct{}, plan onlinedelivery.RecipientDeliveryPlan) error {
	return v.q.enqueue(ctx, acceptDone, plan)
}

func (v *VerifPlanQueue) Pop(shard int) (onlinedelivery.RecipientDeliveryPlan, bool) {
	return v.q.pop(shard)
}

func (v *VerifPlanQueue) Dequeue(shard int, stopReady <-chan struct{}) (onlinedelivery.RecipientDeliveryPlan, bool) {
	return v.q.dequeue(shard, stopReady)
}

func (v *VerifPlanQueue) ShardIndex(plan onlinedelivery.RecipientDeliveryPlan) int {
	return v.q.shardIndex(plan)
}

func (v *VerifPlanQueue) Depth() int    { return v.q.Depth() }
func (v *VerifPlanQueue) Capacity() int { return v.q.Capacity() }

// VerifPlanQueueSnapshot copies the link structure: per node the retained
// message id and next link, per shard head/tail, the free-list head, the
// number of capacity tokens currently in the slots channel and the depth.
type VerifPlanQueueSnapshot struct {
	NodeMsg  []uint64
	NodeNext []int
	Heads    []int
	Tails    []int
	FreeHead int
	Slots    int
	Depth    int
}

func (v *VerifPlanQueue) Snapshot() VerifPlanQueueSnapshot {
	q := v.q
	q.mu.Lock()
	defer q.mu.Unlock()
	s := VerifPlanQueueSnapshot{FreeHead: q.freeHead, Slots: len(q.slots), Depth: int(q.depth.Load())}
	for _, n := range q.nodes {
		s.NodeMsg = append(s.NodeMsg, n.plan.Event.MessageID)
		s.NodeNext = append(s.NodeNext, n.next)
	}
	for _, sh := range q.shards {
		s.Heads = append(s.Heads, sh.head)
		s.Tails = append(s.Tails, sh.tail)
	}
	return s
}

// VerifProcessPlan runs the unexported plan processor on the caller's goroutine.
func (r *Runtime) VerifProcessPlan(ctx context.Context, plan onlinedelivery.RecipientDeliveryPlan) error {
	return r.processPlan(ctx, plan)
}

// VerifValidatePlan runs admission validation alone.
func (r *Runtime) VerifValidatePlan(plan onlinedelivery.RecipientDeliveryPlan) error {
	return r.validatePlan(plan)
}

// VerifQueueShardIndex is the shard the runtime's own queue assigns to plan.
func (r *Runtime) VerifQueueShardIndex(plan onlinedelivery.RecipientDeliveryPlan) int {
	return r.queue.shardIndex(plan)
}

// VerifSuppressSenderRoute / VerifAppendOfflineUIDs expose the two pure helpers of processPlan.
func VerifSuppressSenderRoute(plan onlinedelivery.RecipientDeliveryPlan, route onlinedelivery.Route) bool {
	return suppressSenderRoute(plan, route)
}

func VerifAppendOfflineUIDs(out []string, seen map[string]struct{}, target onlinedelivery.RecipientTargetBatch, routes []onlinedelivery.Route) []string {
	return appendOfflineUIDs(out, seen, target, routes)
}
