//go:build verif

package meta

// Re-exports for the /verif harnesses of C15 (runtime metadata rows).

// VerifResolveMonotonicChannelRuntimeMeta exposes the pure monotonic resolver.
func VerifResolveMonotonicChannelRuntimeMeta(existing ChannelRuntimeMeta, exists bool, candidate ChannelRuntimeMeta) (ChannelRuntimeMeta, MonotonicResult) {
	return resolveMonotonicChannelRuntimeMeta(existing, exists, candidate)
}

// VerifValidateChannelRuntimeMeta exposes the row validator.
func VerifValidateChannelRuntimeMeta(meta ChannelRuntimeMeta) error {
	return validateChannelRuntimeMeta(meta)
}

// VerifMaxKeyStringLen is the key-string length limit of validateKeyString.
const VerifMaxKeyStringLen = maxKeyStringLen
