//go:build verif

package fsm

import (
	"sort"

	metadb "github.com/WuKongIM/WuKongIM/pkg/db/meta"
)

// VerifCommand is the decoded form of the command types the C27 model covers
// (noop, upsert/create user, upsert device); every other registered type is
// reported with Modelled = false.
type VerifCommand struct {
	Type     uint8
	Modelled bool
	User     metadb.User
	Device   metadb.Device
}

// VerifDecodeCommand runs decodeCommand (header check, decoder table, TLV decoder).
func VerifDecodeCommand(data []byte) (VerifCommand, error) {
	cmd, err := decodeCommand(data)
	if err != nil {
		return VerifCommand{}, err
	}
	out := VerifCommand{Type: data[1]}
	switch c := cmd.(type) {
	case *noopCmd:
		out.Modelled = true
	case *upsertUserCmd:
		out.Modelled, out.User = true, c.user
	case *createUserCmd:
		out.Modelled, out.User = true, c.user
	case *upsertDeviceCmd:
		out.Modelled, out.Device = true, c.device
	}
	return out, nil
}

// VerifCommandTypes lists the keys of the commandDecoders table.
func VerifCommandTypes() []uint8 {
	out := make([]uint8, 0, len(commandDecoders))
	for k := range commandDecoders {
		out = append(out, k)
	}
	sort.Slice(out, func(i, j int) bool { return out[i] < out[j] })
	return out
}

// VerifFSMConsts lists the framing constants and the tags of the modelled commands.
func VerifFSMConsts() [][2]any {
	return [][2]any{
		{"commandVersion", commandVersion}, {"headerSize", uint8(headerSize)}, {"tlvOverhead", uint8(tlvOverhead)},
		{"cmdTypeUpsertUser", cmdTypeUpsertUser}, {"cmdTypeCreateUser", cmdTypeCreateUser},
		{"cmdTypeUpsertDevice", cmdTypeUpsertDevice}, {"cmdTypeNoop", cmdTypeNoop},
		{"tagUserUID", tagUserUID}, {"tagUserToken", tagUserToken}, {"tagUserDeviceFlag", tagUserDeviceFlag},
		{"tagUserDeviceLevel", tagUserDeviceLevel}, {"tagDeviceUID", tagDeviceUID}, {"tagDeviceFlag", tagDeviceFlag},
		{"tagDeviceToken", tagDeviceToken}, {"tagDeviceLevel", tagDeviceLevel},
	}
}
