//go:build verif

package reactor

import (
	"context"
	"errors"
	"time"

	ch "github.com/WuKongIM/WuKongIM/pkg/channel"
	"github.com/WuKongIM/WuKongIM/pkg/channel/machine"
	"github.com/WuKongIM/WuKongIM/pkg/channel/transport"
)

// VerifC06Reply is one append waiter completion observed through the waiter futures.
type VerifC06Reply struct {
	OpID  ch.OpID
	Err   error
	Items []ch.AppendBatchItemResult
}

// ErrVerifC06NotCompleted reports that the handler left the request future pending.
var ErrVerifC06NotCompleted = errors.New("verif: request future not completed")

// VerifC06Ack runs one follower progress report through the real reactor
// handlers on the given channel state, which is installed as the state of a
// freshly loaded leader runtime (ensureChannel's construction, no store I/O).
//
//	route 1: handleLeaderAck, Stopped=false  (applyLeaderProgressAck)
//	route 2: handleLeaderAck, Stopped=true
//	route 3: handleLeaderPull                (applyLeaderPullAckOffset)
//
// Every pending append waiter gets a future so that replies are observed in
// completion order. The request's own completion error is returned.
func VerifC06Ack(st *machine.ChannelState, route int, key ch.ChannelKey, epoch, leaderEpoch uint64,
	follower ch.NodeID, offset uint64, versionOK bool) (error, []VerifC06Reply) {
	r := NewReactor(ReactorConfig{ID: 0, LocalNode: st.LocalNode, MailboxSize: 4})
	rc := &runtimeChannel{state: st}
	r.resetLoadedRuntimeStructures(rc, time.Now(), st.LEO)
	r.channels[st.Key] = rc
	rc.waiters = make(map[ch.OpID]*Future, len(st.PendingAppends))
	var replies []VerifC06Reply
	for opID := range st.PendingAppends {
		id := opID
		f := NewFuture()
		f.beforeComplete = func(res Result) {
			replies = append(replies, VerifC06Reply{OpID: id, Err: res.Err, Items: res.AppendBatch.Items})
		}
		rc.waiters[id] = f
	}
	version := rc.lifecycle.version
	if !versionOK {
		version++
	}
	future := NewFuture()
	switch route {
	case 1, 2:
		r.handleLeaderAck(Event{Kind: EventAck, Key: st.Key, Future: future, Ack: transport.AckRequest{
			ChannelKey: key, Epoch: epoch, LeaderEpoch: leaderEpoch, Follower: follower,
			MatchOffset: offset, ActivityVersion: version, Stopped: route == 2,
		}})
	case 3:
		r.handleLeaderPull(Event{Kind: EventPull, Key: st.Key, Future: future, Context: context.Background(), OpID: 1,
			Pull: transport.PullRequest{
				ChannelKey: key, ChannelID: st.ID, Epoch: epoch, LeaderEpoch: leaderEpoch, Follower: follower,
				NextOffset: st.LEO + 1, AckOffset: offset, MaxBytes: 1024,
			}})
	default:
		return ch.ErrInvalidConfig, nil
	}
	select {
	case <-future.Done():
		return future.Result().Err, replies
	default:
		return ErrVerifC06NotCompleted, replies
	}
}
