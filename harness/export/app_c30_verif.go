//go:build verif

package app

// VerifMessageIDs exposes the node message-id allocator to the /verif harness.
type VerifMessageIDs struct{ g *nodeMessageIDs }

func VerifNewMessageIDs(nodeID uint64) (*VerifMessageIDs, error) {
	g, err := newNodeMessageIDs(nodeID)
	if err != nil {
		return nil, err
	}
	return &VerifMessageIDs{g: g}, nil
}

func (v *VerifMessageIDs) Next() uint64            { return v.g.Next() }
func (v *VerifMessageIDs) SetFloor(f uint64) error { return v.g.SetFloor(f) }
func (v *VerifMessageIDs) Floor() uint64           { return v.g.floor.Load() }
