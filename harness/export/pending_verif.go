//go:build verif

package rpc

// VerifDefaultPendingShards exposes the fallback shard count of NewPendingTable
// to the /verif harness (regenerated into coq/Gen/Consts_C26.v).
const VerifDefaultPendingShards = defaultPendingShards

// VerifShardIndex exposes the shard routing of a request id (id & mask).
func (p *PendingTable) VerifShardIndex(id uint64) uint64 { return id & p.mask }

// VerifShardCount exposes the number of shards actually allocated.
func (p *PendingTable) VerifShardCount() int { return len(p.shards) }
