//go:build verif

package core

import (
	"context"

	gatewaytypes "github.com/WuKongIM/WuKongIM/pkg/gateway/types"
	"github.com/WuKongIM/WuKongIM/pkg/protocol/frame"
)

// Exports for the /verif C28 / C41 harness (GatewaySend model). Add-only.

// VerifC28Consts returns the compile-time constants of the SEND executor.
func VerifC28Consts() (shardsPerWorker int) { return asyncSendOrderingShardsPerWorker }

// VerifC28ShardCount / VerifC28ShardCapacity re-export the shard geometry.
func VerifC28ShardCount(workers, capacity int) int { return asyncSendLogicalShardCount(workers, capacity) }
func VerifC28ShardCapacity(capacity, shards int) int {
	return asyncSendShardCapacity(capacity, shards)
}

// VerifC28ShardIndex is asyncSendShardIndex for a session whose id is sid.
func VerifC28ShardIndex(sid uint64, shards int) int {
	return asyncSendShardIndex(&sessionState{key: connKey{connID: sid}}, nil, shards)
}

type verifC28SplitHandler struct{ out *[][]int }

func (verifC28SplitHandler) OnListenerError(string, error)                   {}
func (verifC28SplitHandler) OnSessionOpen(gatewaytypes.Context) error        { return nil }
func (verifC28SplitHandler) OnFrame(gatewaytypes.Context, frame.Frame) error { return nil }
func (verifC28SplitHandler) OnSessionClose(gatewaytypes.Context) error       { return nil }
func (verifC28SplitHandler) OnSessionError(gatewaytypes.Context, error)      {}
func (h verifC28SplitHandler) OnSendBatch(items []gatewaytypes.SendBatchItem) error {
	sub := make([]int, 0, len(items))
	for _, it := range items {
		sub = append(sub, int(it.Frame.ClientSeq))
	}
	*h.out = append(*h.out, sub)
	return nil
}

// VerifC28Split runs the real dispatchMailboxBatch on items whose payload
// sizes are given, with the session options' limits, and returns the item
// indexes of every sub-batch handed to the SendBatchHandler, in call order.
func VerifC28Split(sizes []int, maxRecords, maxBytes int) [][]int {
	var out [][]int
	srv := &Server{
		dispatcher: newDispatcher(verifC28SplitHandler{out: &out}),
		options: gatewaytypes.Options{DefaultSession: gatewaytypes.SessionOptions{
			AsyncSendBatchMaxRecords: maxRecords,
			AsyncSendBatchMaxBytes:   maxBytes,
			AsyncSendBatchMaxWait:    -1,
		}},
	}
	e := &sendExecutor{server: srv}
	items := make([]asyncDispatchTask, len(sizes))
	for i, n := range sizes {
		items[i] = asyncDispatchTask{frame: &frame.SendPacket{ClientSeq: uint64(i), Payload: make([]byte, n)}}
	}
	e.dispatchMailboxBatch(items)
	return out
}

// VerifC28Limits returns the normalized batch limits the server uses.
func VerifC28Limits(opt gatewaytypes.SessionOptions) (maxRecords, maxBytes int, maxWaitNanos int64) {
	l := asyncSendBatchLimitsFromOptions(opt)
	return l.maxRecords, l.maxBytes, int64(l.maxWait)
}

// VerifC28Geometry reports the running executor's geometry (0s when no runtime).
func (s *Server) VerifC28Geometry() (workers, shards, capacity, shardCapacity int) {
	r := s.asyncRuntime()
	if r == nil || r.send == nil {
		return
	}
	return r.send.workers, r.send.shards, r.send.capacity, r.send.shardCapacity
}

// VerifC28Depths reports queued and per-shard reservations of the running executor.
func (s *Server) VerifC28Depths() (queued int, shardQueued []int64, closed bool) {
	r := s.asyncRuntime()
	if r == nil || r.send == nil {
		return 0, nil, true
	}
	e := r.send
	out := make([]int64, len(e.shardQueued))
	for i := range e.shardQueued {
		out[i] = e.shardQueued[i].Load()
	}
	return e.depth(), out, e.closed.Load()
}

// VerifC28Drained reports whether the executor's terminal drain has completed.
func (s *Server) VerifC28Drained() bool {
	r := s.asyncRuntime()
	if r == nil || r.send == nil {
		return true
	}
	select {
	case <-r.send.drained:
		return true
	default:
		return false
	}
}

var _ = context.Background

// VerifC28Handle keeps the SEND executor reachable after Server.Stop swapped the
// runtime out, so that the harness can still wait for the terminal drain.
type VerifC28Handle struct{ r *asyncRuntime }

func (s *Server) VerifC28Handle() *VerifC28Handle { return &VerifC28Handle{r: s.asyncRuntime()} }

// DrainSends is Server.DrainSends on the captured runtime.
func (h *VerifC28Handle) DrainSends(ctx context.Context) error {
	if h == nil || h.r == nil {
		return gatewaytypes.ErrGatewayClosed
	}
	return h.r.drainSends(ctx)
}

// Queued reports the executor's global depth counter.
func (h *VerifC28Handle) Queued() int {
	if h == nil || h.r == nil || h.r.send == nil {
		return 0
	}
	return h.r.send.depth()
}
