//go:build verif

package meta

// Re-exports for the /verif C11 harness (backup and restore of hash-slot metadata).
// Add-only; compiled only with -tags verif through the build overlay.

import (
	"errors"

	"github.com/WuKongIM/WuKongIM/pkg/db/internal/dberrors"
	"github.com/WuKongIM/WuKongIM/pkg/db/internal/engine"
	"github.com/WuKongIM/WuKongIM/pkg/db/internal/keycodec"
)

// VerifC11OpenMem opens a metadata DB like Open does, on an in-memory file system.
func VerifC11OpenMem() (*DB, error) {
	eng, err := engine.VerifC11OpenMem(engine.Options{})
	if err != nil {
		return nil, err
	}
	return &DB{meta: NewDB(eng), engine: eng}, nil
}

var VerifC11Magic = slotSnapshotMagic

const (
	VerifC11Version           = slotSnapshotVersion
	VerifC11MaxEntryBytes     = maxSlotSnapshotStreamEntryBytes
	VerifC11ImportBatchEntries = slotSnapshotImportBatchEntries
	VerifC11ImportBatchBytes  = slotSnapshotImportBatchBytes
	VerifC11DomainMeta        = byte(keycodec.DomainMeta)
	VerifC11PartitionHashSlot = byte(keycodec.PartitionHashSlot)
	VerifC11SpaceRow          = byte(keycodec.SpaceRow)
	VerifC11SpaceIndex        = byte(keycodec.SpaceIndex)
	VerifC11SpaceSystem       = byte(keycodec.SpaceSystem)
)

// VerifC11ErrClass: 0 nil, 1 invalid argument, 2 conflict, 3 corrupt value, 4 corrupt state,
// 5 checksum mismatch, 6 closed, 9 anything else.
func VerifC11ErrClass(err error) uint64 {
	switch {
	case err == nil:
		return 0
	case errors.Is(err, dberrors.ErrInvalidArgument):
		return 1
	case errors.Is(err, dberrors.ErrConflict):
		return 2
	case errors.Is(err, dberrors.ErrChecksumMismatch):
		return 5
	case errors.Is(err, dberrors.ErrCorruptValue):
		return 3
	case errors.Is(err, dberrors.ErrCorruptState):
		return 4
	case errors.Is(err, dberrors.ErrClosed):
		return 6
	default:
		return 9
	}
}

// VerifC11Table describes one registered table for the model's span predicates.
type VerifC11Table struct {
	ID       uint32
	Indexes  []uint16
	Preserve bool // SnapshotPolicy.PreserveOnImport
	Excluded bool // left out of the backup-only export
}

// VerifC11Tables lists the registered tables in id order.
func VerifC11Tables() []VerifC11Table {
	var out []VerifC11Table
	for _, table := range defaultMetaRegistry.tables() {
		d, _ := defaultMetaRegistry.lookup(table.ID)
		t := VerifC11Table{ID: table.ID, Preserve: d.SnapshotPolicy.PreserveOnImport,
			Excluded: table.ID == TableIDChannelRuntimeMeta || table.ID == TableIDChannelMigration || table.ID == TableIDHashSlotMigration}
		for _, index := range table.Indexes {
			t.Indexes = append(t.Indexes, index.ID)
		}
		out = append(out, t)
	}
	return out
}

const (
	VerifC11TableUser   = TableIDUser
	VerifC11TableDevice = TableIDDevice
)

// Span predicates of the implementation, for the tie of the model's concrete versions.
func VerifC11InSlots(key []byte, hashSlots []uint16) bool {
	n, err := normalizeSnapshotHashSlots(hashSlots)
	return err == nil && snapshotEntryInHashSlots(key, n)
}
func VerifC11InBackupSpans(key []byte, hashSlots []uint16) bool {
	n, err := normalizeSnapshotHashSlots(hashSlots)
	return err == nil && snapshotEntryInBackupSpans(key, n)
}
func VerifC11IsMigrationKey(key []byte, hashSlots []uint16) bool {
	n, err := normalizeSnapshotHashSlots(hashSlots)
	return err == nil && isHashSlotMigrationSnapshotKey(key, n)
}
func VerifC11InReplaceSpans(key []byte, hashSlots []uint16, preserve bool) bool {
	n, err := normalizeSnapshotHashSlots(hashSlots)
	if err != nil {
		return false
	}
	for _, hs := range n {
		for _, span := range hashSlotSnapshotReplaceSpans(hs, preserve) {
			if bytesInSpan(key, span) {
				return true
			}
		}
	}
	return false
}

// VerifC11Normalize exposes normalizeSnapshotHashSlots (order and duplicates as the code treats them).
func VerifC11Normalize(hashSlots []uint16) ([]uint16, uint64) {
	n, err := normalizeSnapshotHashSlots(hashSlots)
	if err != nil {
		return nil, VerifC11ErrClass(err)
	}
	return uint16HashSlots(n), 0
}

// VerifC11InvalidateToken exposes invalidateSnapshotAuthenticationToken.
func VerifC11InvalidateToken(key, value []byte, hashSlots []uint16) ([]byte, uint64) {
	n, err := normalizeSnapshotHashSlots(hashSlots)
	if err != nil {
		return nil, VerifC11ErrClass(err)
	}
	out, ierr := invalidateSnapshotAuthenticationToken(key, value, n)
	return out, VerifC11ErrClass(ierr)
}

// VerifC11AllKV returns every key/value of the metadata domain in key order.
func (db *MetaDB) VerifC11AllKV() ([][2][]byte, error) {
	span := keycodec.NewPrefixSpan([]byte{byte(keycodec.DomainMeta)})
	iter, err := db.engine.NewIter(engine.Span{Start: span.Start, End: span.End}, engine.IterOptions{})
	if err != nil {
		return nil, err
	}
	defer iter.Close()
	var out [][2][]byte
	for ok := iter.First(); ok; ok = iter.Next() {
		v, err := iter.Value()
		if err != nil {
			return nil, err
		}
		out = append(out, [2][]byte{append([]byte(nil), iter.Key()...), append([]byte(nil), v...)})
	}
	return out, iter.Error()
}

// VerifC11RawSet writes one raw key/value (rows of tables the typed API of the harness
// does not cover, foreign hash slots, malformed user values).
func (db *MetaDB) VerifC11RawSet(key, value []byte) error {
	batch := db.engine.NewBatch()
	defer batch.Close()
	if err := batch.Set(key, value); err != nil {
		return err
	}
	return batch.Commit(true)
}

// VerifC11EncodeSnapshot exposes encodeSlotSnapshotPayload (building streams with chosen entries).
func VerifC11EncodeSnapshot(hashSlots []uint16, keys, values [][]byte) []byte {
	entries := make([]snapshotEntry, len(keys))
	for i := range keys {
		entries[i] = snapshotEntry{Key: keys[i], Value: values[i]}
	}
	data, _ := encodeSlotSnapshotPayload(hashSlots, entries)
	return data
}
