//go:build verif

// Package msgh is shared by the C07 / C08 / C09 harness mains: history input
// types, execution of one op on the real pkg/db/message store, canonical
// observations and their Coq printers.  It is mapped into /repo as
// pkg/db/verifh_msgstore by the build overlay only.
package msgh

import (
	"context"
	"encoding/hex"
	"errors"
	"fmt"
	"io"
	"log"
	"os"
	"sort"
	"strings"

	"github.com/WuKongIM/WuKongIM/internal/verifh/vh"
	"github.com/WuKongIM/WuKongIM/pkg/db/internal/dberrors"
	"github.com/WuKongIM/WuKongIM/pkg/db/internal/engine"
	"github.com/WuKongIM/WuKongIM/pkg/db/message"
	channel "github.com/WuKongIM/WuKongIM/pkg/db/message/channelcompat"
	"github.com/cockroachdb/pebble/v2/vfs"
)

// ---- input -------------------------------------------------------------------

// Rec is one record of an append / apply.  Strings are used verbatim as bytes.
type Rec struct {
	ID    uint64 `json:"id"`
	Cno   string `json:"cno,omitempty"`
	Uid   string `json:"uid,omitempty"`
	Pl    string `json:"pl,omitempty"` // hex payload
	Ts    int64  `json:"ts"`
	Flags uint8  `json:"fl,omitempty"`   // compat appends only (FramerFlags)
	RIdx  uint64 `json:"ridx,omitempty"` // compat: channel.Record.Index (0 = unset)
	RID   uint64 `json:"rid,omitempty"`  // compat: channel.Record.ID (0 = unset)
}

type Ck struct {
	E, L, H uint64
}

type Ep struct {
	E, S uint64
}

// Op is one step of a history.  K selects the API:
//
//	append  ChannelLog.Append(Recs, {Mode, Base})
//	apply   ChannelLog.ApplyFetch({Base, Recs, Ck, Ep})
//	capp    ChannelStore.Append / AppendServerAllocated / AppendTrusted (Mode 0/1/2) of compat records
//	cbatch  message.StoreAppendBatch(Items): non-exact appends to several channels in ONE commit request
//	trunc   ChannelLog.TruncateFrom(A)
//	ctrunc  ChannelStore.Truncate(A)
//	trim    ChannelLog.TrimPrefixThroughLimit(A, {MaxMessages: B, MaxBytes: D})
//	ckpt    ChannelLog.StoreCheckpoint(Ck)
//	ckptm   ChannelLog.StoreCheckpointMonotonic(Ck, A, B)
//	release close the held lease of channel C (the entry is reclaimed to the warm cache)
//	reopen  close the whole database and open it again
//	read    ChannelLog.Read(A, {Limit: B, MaxBytes: D})
//	rread   ChannelLog.ReadReverse(A, {Limit: B, MaxBytes: D})
//	get     ChannelLog.GetBySeq(A)
//	byid    ChannelLog.GetByMessageID(A)
//	bycno   ChannelLog.ListByClientMsgNo(Cno, A, B)
//	idem    ChannelLog.LookupIdempotency({Uid, Cno})
//	lasts   ChannelLog.GetLastSenderMessageSeq(Uid, A)
//	leo     ChannelLog.LEO
//	ret     ChannelLog.LoadRetentionState
//	lck     ChannelLog.LoadCheckpoint
//	hist    ChannelLog.LoadHistory
type Item struct {
	C    int   `json:"c"`
	Mode uint8 `json:"mode,omitempty"` // 0 strict, 1 server-allocated ids
	Recs []Rec `json:"recs,omitempty"`
}

type Op struct {
	Items []Item `json:"items,omitempty"` // cbatch: message.StoreAppendBatch over several channels (one physical batch)
	K     string `json:"k"`
	C     int    `json:"c"`
	Mode  uint8  `json:"mode,omitempty"`
	Base  uint64 `json:"base,omitempty"`
	Recs  []Rec  `json:"recs,omitempty"`
	Ck    *Ck    `json:"ck,omitempty"`
	Ep    *Ep    `json:"ep,omitempty"`
	A     uint64 `json:"a,omitempty"`
	B     int64  `json:"b,omitempty"`
	D     int64  `json:"d,omitempty"`
	Cno   string `json:"cno,omitempty"`
	Uid   string `json:"uid,omitempty"`
}

// Input is one history over the fixed channel table below.
type Input struct {
	Ops []Op `json:"ops"`
	// Compact suppresses the per-mutation dumps (long histories: results, explicit
	// reads and the final physical keys still tie the model).
	Compact bool `json:"compact,omitempty"`
}

// The three channels of every history.  Keys "a" / "ab" are prefix related on
// purpose (prefix scans must not leak); ids differ from keys.
var chanKeys = []string{"a", "ab", "b"}
var chanIDs = []string{"ca", "cab", "cb"}
var chanTypes = []uint8{1, 2, 1}

const NChans = 3

// ---- error classes -------------------------------------------------------------

const (
	eInvalid      = 1
	eConflict     = 2
	eCorruptValue = 3
	eCorruptState = 4
	eClosed       = 5
	eOther        = 9
)

func ErrClass(err error) uint64 {
	switch {
	case errors.Is(err, dberrors.ErrInvalidArgument), errors.Is(err, channel.ErrInvalidArgument):
		return eInvalid
	case errors.Is(err, dberrors.ErrConflict):
		return eConflict
	case errors.Is(err, dberrors.ErrCorruptValue), errors.Is(err, channel.ErrCorruptValue), errors.Is(err, io.ErrUnexpectedEOF):
		return eCorruptValue
	case errors.Is(err, dberrors.ErrCorruptState), errors.Is(err, channel.ErrCorruptState):
		return eCorruptState
	case errors.Is(err, dberrors.ErrClosed), errors.Is(err, channel.ErrClosed):
		return eClosed
	default:
		return eOther
	}
}

// ---- the store under test ---------------------------------------------------------

// env is one physical database reused by several histories.  Every history
// gets its own channel-key prefix and message-id offset, so that nothing of an
// earlier history is visible to a later one (the global message-id index is
// shared by all channels of one database).
// pollCtx runs poll whenever the callee polls the context for cancellation.
type pollCtx struct {
	context.Context
	poll func()
}

func (c pollCtx) Done() <-chan struct{} { c.poll(); return c.Context.Done() }
func (c pollCtx) Err() error            { c.poll(); return c.Context.Err() }

type Env struct {
	// NoDumps suppresses the read-back after mutations (C09 observes crash clones instead).
	NoDumps bool
	// Poll, when set, runs at every context poll inside DiscardForRestore (between its batches).
	Poll func()
	// FS, when set, is the (crash-simulating) file system Pebble runs on; nil = the real disk.
	FS     vfs.FS
	dir    string
	eng    *message.Engine
	uses   int
	leases [NChans]*message.ChannelLog
	stores [NChans]*message.ChannelStore
	hist   uint64 // history number inside this env, from 1
}

var curEnv *Env
var parentDir string

const historiesPerDB = 20
const idShift = 32

func init() { log.SetOutput(io.Discard) } // Pebble's default logger

func CleanupAll() {
	if curEnv != nil {
		curEnv.destroy()
		curEnv = nil
	}
	if parentDir != "" {
		_ = os.RemoveAll(parentDir)
	}
}

func newEnv() *Env {
	if parentDir == "" {
		d, err := os.MkdirTemp("", "verif-msgstore-*")
		if err != nil {
			panic(err)
		}
		parentDir = d
	}
	dir, err := os.MkdirTemp(parentDir, "db-*")
	if err != nil {
		panic(err)
	}
	e := &Env{dir: dir}
	e.open()
	return e
}

func (e *Env) open() {
	if e.FS != nil {
		phys, err := engine.VerifOpenFS(e.dir, message.VerifMessageEngineOptions(), e.FS)
		if err != nil {
			panic(fmt.Sprintf("engine.VerifOpenFS: %v", err))
		}
		e.eng = message.VerifNewEngine(phys)
		return
	}
	eng, err := message.Open(e.dir)
	if err != nil {
		panic(fmt.Sprintf("message.Open: %v", err))
	}
	e.eng = eng
}

// NewEnvOnFS opens a fresh database on fs (C09); the caller owns its lifetime.
func NewEnvOnFS(fs vfs.FS) *Env {
	e := &Env{FS: fs, dir: "db", hist: 1, uses: 1}
	e.open()
	return e
}

// Close closes the database of an env created by NewEnvOnFS.
func (e *Env) Close() { e.closeDB() }

// RecoverFS opens the database found on fs (a crash clone), decodes its keys in
// the terms of history e and reads every channel's LEO through the API.
func (e *Env) RecoverFS(fs vfs.FS) (kv []KVEnt, leos []uint64, err error) {
	phys, err := engine.VerifOpenFS(e.dir, message.VerifMessageEngineOptions(), fs)
	if err != nil {
		return nil, nil, err
	}
	eng := message.VerifNewEngine(phys)
	defer eng.Close()
	raw, err := eng.VerifDB().VerifDumpKV(e.AllKeys())
	if err != nil {
		return nil, nil, err
	}
	kv = e.KVOf(raw)
	SortKV(kv)
	for c := 0; c < NChans; c++ {
		l, err := eng.VerifDB().Channel(e.key(c), e.chID(c))
		if err != nil {
			return nil, nil, err
		}
		leo, err := l.LEO(context.Background())
		_ = l.Close()
		if err != nil {
			return nil, nil, err
		}
		leos = append(leos, leo)
	}
	return kv, leos, nil
}

func (e *Env) destroy() {
	e.closeDB()
	_ = os.RemoveAll(e.dir)
}

func (e *Env) closeDB() {
	for i := range e.leases {
		e.releaseLease(i)
	}
	if e.eng != nil {
		if err := e.eng.Close(); err != nil {
			panic(fmt.Sprintf("Engine.Close: %v", err))
		}
		e.eng = nil
	}
}

func (e *Env) releaseLease(c int) {
	if e.stores[c] != nil {
		_ = e.stores[c].Close()
		e.stores[c] = nil
	}
	if e.leases[c] != nil {
		_ = e.leases[c].Close()
		e.leases[c] = nil
	}
}

func (e *Env) key(c int) message.ChannelKey {
	return message.ChannelKey(fmt.Sprintf("h%d/%s", e.hist, chanKeys[c]))
}

func (e *Env) chID(c int) message.ChannelID {
	return message.ChannelID{ID: fmt.Sprintf("h%d/%s", e.hist, chanIDs[c]), Type: chanTypes[c]}
}

func (e *Env) AllKeys() []message.ChannelKey {
	ks := make([]message.ChannelKey, NChans)
	for c := range ks {
		ks[c] = e.key(c)
	}
	return ks
}

func (e *Env) Lease(c int) *message.ChannelLog {
	if e.leases[c] == nil {
		l, err := e.eng.VerifDB().Channel(e.key(c), e.chID(c))
		if err != nil {
			panic(fmt.Sprintf("Channel(%d): %v", c, err))
		}
		e.leases[c] = l
	}
	return e.leases[c]
}

// adopted reports whether the channel's local retention boundary already covers through.
func (e *Env) adopted(c int, through uint64) bool {
	st, ok, err := e.Lease(c).LoadRetentionState(context.Background())
	return err == nil && ok && through <= st.LocalRetentionThroughSeq
}

func (e *Env) Store(c int) *message.ChannelStore {
	if e.stores[c] == nil {
		id := e.chID(c)
		s, err := e.eng.ForChannel(channel.ChannelKey(e.key(c)), channel.ChannelID{ID: id.ID, Type: id.Type})
		if err != nil {
			panic(fmt.Sprintf("ForChannel(%d): %v", c, err))
		}
		e.stores[c] = s
	}
	return e.stores[c]
}

// id mapping: history-local small ids <-> physical ids
func (e *Env) mapID(id uint64) uint64 {
	if id == 0 {
		return 0
	}
	return e.hist<<idShift | id
}

func (e *Env) unmapID(id uint64) uint64 {
	if id>>idShift == e.hist {
		return id & (1<<idShift - 1)
	}
	return id | 1<<62 // foreign id: cannot equal a model id
}

func (e *Env) chanIndexOfID(id string, typ uint8) uint64 {
	for c := 0; c < NChans; c++ {
		x := e.chID(c)
		if x.ID == id && x.Type == typ {
			return uint64(c)
		}
	}
	return 99
}

func (e *Env) chanIndexOfKey(k string) uint64 {
	for c := 0; c < NChans; c++ {
		if string(e.key(c)) == k {
			return uint64(c)
		}
	}
	return 99
}

// beginHistory returns the env for a new history.
func BeginHistory() *Env {
	if curEnv == nil || curEnv.uses >= historiesPerDB {
		if curEnv != nil {
			curEnv.destroy()
		}
		curEnv = newEnv()
	}
	e := curEnv
	e.uses++
	e.hist++
	for i := range e.leases {
		e.releaseLease(i)
	}
	if e.eng == nil {
		e.open()
	}
	return e
}

// ---- observations -------------------------------------------------------------------

// Msg is one materialised message in history-local terms.
type Msg struct {
	Seq  uint64 `json:"seq"`
	ID   uint64 `json:"id"`
	Ch   uint64 `json:"ch"` // channel index resolved from (ChannelID, ChannelType); 99 = unknown
	Cno  string `json:"cno"`
	Uid  string `json:"uid"`
	Hash uint64 `json:"hash"`
	Pl   string `json:"pl"` // hex
	Ts   int64  `json:"ts"`
}

func (e *Env) msg(m message.Message) Msg {
	return Msg{Seq: m.MessageSeq, ID: e.unmapID(m.MessageID), Ch: e.chanIndexOfID(m.ChannelID, m.ChannelType),
		Cno: m.ClientMsgNo, Uid: m.FromUID, Hash: m.PayloadHash, Pl: hex.EncodeToString(m.Payload), Ts: m.ServerTimestampMS}
}

func (e *Env) msgs(ms []message.Message) []Msg {
	out := make([]Msg, len(ms))
	for i, m := range ms {
		out[i] = e.msg(m)
	}
	return out
}

func CoqMsg(m Msg) string {
	pl, _ := hex.DecodeString(m.Pl)
	return vh.App("M", vh.N(m.Seq), vh.N(m.ID), vh.N(m.Ch), vh.HexS(m.Cno), vh.HexS(m.Uid), vh.N(m.Hash), vh.Hex(pl), vh.Z(m.Ts))
}

func CoqMsgs(ms []Msg) string { return vh.ListOf(ms, CoqMsg) }

// Out is the canonical result of one op.
type Out struct {
	Err  uint64   `json:"err,omitempty"`
	Kind string   `json:"kind"` // Coq constructor of the success shape
	N    []uint64 `json:"n,omitempty"`
	Ms   []Msg    `json:"ms,omitempty"`
	Opt  bool     `json:"opt,omitempty"` // option present
	Flag bool     `json:"flag,omitempty"`
}

func (o Out) Coq() string {
	if o.Err != 0 {
		return vh.App("XErr", vh.N(o.Err))
	}
	switch o.Kind {
	case "XOk":
		return "XOk"
	case "XApp": // base last count
		return vh.App("XApp", vh.N(o.N[0]), vh.N(o.N[1]), vh.N(o.N[2]))
	case "XN":
		return vh.App("XN", vh.N(o.N[0]))
	case "XTrim": // deletedThrough deleted more
		return vh.App("XTrim", vh.N(o.N[0]), vh.N(o.N[1]), vh.B(o.Flag))
	case "XMsgs":
		return vh.App("XMsgs", CoqMsgs(o.Ms))
	case "XMsgO":
		if !o.Opt {
			return "(XMsgO None)"
		}
		return vh.App("XMsgO", vh.Some(CoqMsg(o.Ms[0])))
	case "XPage": // msgs hasMore nextBefore
		return vh.App("XPage", CoqMsgs(o.Ms), vh.B(o.Flag), vh.N(o.N[0]))
	case "XHit": // seq id offset hash
		if !o.Opt {
			return "(XHit None)"
		}
		return vh.App("XHit", vh.Some("("+vh.N(o.N[0])+", "+vh.N(o.N[1])+", "+vh.N(o.N[2])+", "+vh.N(o.N[3])+")"))
	case "XNO":
		if !o.Opt {
			return "(XNO None)"
		}
		return vh.App("XNO", vh.Some(vh.N(o.N[0])))
	case "XTriple":
		if !o.Opt {
			return "(XTriple None)"
		}
		return vh.App("XTriple", vh.Some("("+vh.N(o.N[0])+", "+vh.N(o.N[1])+", "+vh.N(o.N[2])+")"))
	case "XBatch": // per item: (err, base, last)
		items := make([]string, 0, len(o.N)/3)
		for i := 0; i+2 < len(o.N); i += 3 {
			items = append(items, "("+vh.N(o.N[i])+", "+vh.N(o.N[i+1])+", "+vh.N(o.N[i+2])+")")
		}
		return vh.App("XBatch", vh.List(items))
	case "XPairs":
		items := make([]string, 0, len(o.N)/2)
		for i := 0; i+1 < len(o.N); i += 2 {
			items = append(items, vh.Pair(vh.N(o.N[i]), vh.N(o.N[i+1])))
		}
		return vh.App("XPairs", vh.List(items))
	}
	panic("unknown out kind " + o.Kind)
}

// Dump is the state of one channel as the read API shows it: the log end, every
// stored row in compact form (seq, id, payload hash) and, after a successful
// append, the complete rows of the appended range.
type Dump struct {
	C      int    `json:"c"`
	LeoErr uint64 `json:"leo_err,omitempty"`
	Leo    uint64 `json:"leo"`
	RdErr  uint64 `json:"rd_err,omitempty"`
	Rows   []Msg  `json:"rows,omitempty"`
	NewErr uint64 `json:"new_err,omitempty"`
	New    []Msg  `json:"new,omitempty"`
}

func coqCompact(m Msg) string {
	return "(" + vh.N(m.Seq) + ", " + vh.N(m.ID) + ", " + vh.N(m.Hash) + ")"
}

func (d Dump) Coq() string {
	leo := vh.App("inl", vh.N(d.Leo))
	if d.LeoErr != 0 {
		leo = vh.App("inr", vh.N(d.LeoErr))
	}
	rows := vh.App("inl", vh.ListOf(d.Rows, coqCompact))
	if d.RdErr != 0 {
		rows = vh.App("inr", vh.N(d.RdErr))
	}
	news := vh.App("inl", CoqMsgs(d.New))
	if d.NewErr != 0 {
		news = vh.App("inr", vh.N(d.NewErr))
	}
	return vh.App("D", vh.N(uint64(d.C)), leo, rows, news)
}

// DumpChan reads LEO and Read(1, {}); when newCount > 0 also Read(newFrom, {Limit: newCount}).
func (e *Env) DumpChan(c int, newFrom uint64, newCount int) Dump {
	ctx := context.Background()
	l := e.Lease(c)
	d := Dump{C: c}
	leo, err := l.LEO(ctx)
	if err != nil {
		d.LeoErr = ErrClass(err)
	}
	d.Leo = leo
	ms, err := l.Read(ctx, 1, message.ReadOptions{})
	if err != nil {
		d.RdErr = ErrClass(err)
	} else {
		d.Rows = e.msgs(ms)
		for i := range d.Rows { // compact: only seq, id, hash are printed
			d.Rows[i] = Msg{Seq: d.Rows[i].Seq, ID: d.Rows[i].ID, Hash: d.Rows[i].Hash}
		}
	}
	if newCount > 0 {
		ns, err := l.Read(ctx, newFrom, message.ReadOptions{Limit: newCount})
		if err != nil {
			d.NewErr = ErrClass(err)
		} else {
			d.New = e.msgs(ns)
		}
	}
	return d
}

// ---- executing one op ---------------------------------------------------------------------

func decodeHex(s string) []byte {
	b, err := hex.DecodeString(s)
	if err != nil {
		panic("bad hex in input: " + s)
	}
	return b
}

func (e *Env) records(rs []Rec) []message.Record {
	out := make([]message.Record, len(rs))
	for i, r := range rs {
		out[i] = message.Record{ID: e.mapID(r.ID), ClientMsgNo: r.Cno, FromUID: r.Uid, Payload: decodeHex(r.Pl), ServerTimestampMS: r.Ts}
	}
	return out
}

func (e *Env) compatRecords(c int, rs []Rec) []channel.Record {
	id := e.chID(c)
	out := make([]channel.Record, len(rs))
	for i, r := range rs {
		mid := e.mapID(r.ID)
		if mid == 0 {
			// the compat codec cannot even encode id 0; encode 1 and patch the bytes
			mid = 0
		}
		enc := mid
		if enc == 0 {
			enc = 1
		}
		rec, err := message.VerifCompatRecord(message.VerifCompatRow{
			MessageID: enc, FramerFlags: r.Flags, ClientMsgNo: r.Cno, FromUID: r.Uid,
			ChannelID: id.ID, ChannelType: id.Type, Payload: decodeHex(r.Pl), ServerTimestampMS: r.Ts,
		})
		if err != nil {
			panic(fmt.Sprintf("VerifCompatRecord: %v", err))
		}
		if mid == 0 { // message id lives in payload[1:9]
			for j := 1; j < 9; j++ {
				rec.Payload[j] = 0
			}
		}
		rec.ID = 0
		if r.RID != 0 {
			rec.ID = e.mapID(r.RID)
		}
		rec.Index = r.RIdx
		rec.SizeBytes = 0
		out[i] = rec
	}
	return out
}

func IsMutation(k string) bool {
	switch k {
	case "append", "apply", "capp", "cbatch", "trunc", "ctrunc", "trim", "ckpt", "ckptm", "release", "discard":
		return true
	}
	return false
}

// exec runs one op and returns its result and the dumps taken after it.
func (e *Env) Exec(op Op) (Out, []Dump) {
	ctx := context.Background()
	c := op.C
	if c < 0 || c >= NChans {
		c = 0
	}
	var out Out
	fail := func(err error) { out = Out{Err: ErrClass(err)} }
	switch op.K {
	case "append":
		res, err := e.Lease(c).Append(ctx, e.records(op.Recs), message.AppendOptions{Mode: message.AppendMode(op.Mode), BaseSeq: op.Base})
		if err != nil {
			fail(err)
		} else {
			out = Out{Kind: "XApp", N: []uint64{res.BaseSeq, res.LastSeq, uint64(res.Count)}}
		}
	case "apply":
		req := message.ApplyFetchRequest{BaseSeq: op.Base, Records: e.records(op.Recs)}
		if op.Ck != nil {
			req.Checkpoint = &message.Checkpoint{Epoch: op.Ck.E, LogStartOffset: op.Ck.L, HW: op.Ck.H}
		}
		if op.Ep != nil {
			req.EpochPoint = &message.EpochPoint{Epoch: op.Ep.E, StartOffset: op.Ep.S}
		}
		res, err := e.Lease(c).ApplyFetch(ctx, req)
		if err != nil {
			fail(err)
		} else {
			out = Out{Kind: "XApp", N: []uint64{res.BaseSeq, res.LastSeq, uint64(res.Count)}}
		}
	case "capp":
		recs := e.compatRecords(c, op.Recs)
		var base uint64
		var err error
		switch op.Mode {
		case 0:
			base, err = e.Store(c).Append(recs)
		case 1:
			base, err = e.Store(c).AppendServerAllocated(recs)
		default:
			base, err = e.Store(c).AppendTrusted(recs)
		}
		if err != nil {
			fail(err)
		} else {
			out = Out{Kind: "XN", N: []uint64{base}}
		}
	case "cbatch":
		items := make([]message.AppendBatchItem, len(op.Items))
		for i, it := range op.Items {
			ci := it.C
			if ci < 0 || ci >= NChans {
				ci = 0
			}
			items[i] = message.AppendBatchItem{Store: e.Store(ci), Records: e.compatRecords(ci, it.Recs), ServerAllocatedMessageIDs: it.Mode == 1}
		}
		results := message.StoreAppendBatch(ctx, items)
		o := Out{Kind: "XBatch"}
		for _, r := range results {
			if r.Err != nil {
				o.N = append(o.N, ErrClass(r.Err), 0, 0)
			} else {
				o.N = append(o.N, 0, r.BaseOffset, r.LastOffset)
			}
		}
		out = o
	case "trunc":
		if err := e.Lease(c).TruncateFrom(ctx, op.A); err != nil {
			fail(err)
		} else {
			out = Out{Kind: "XOk"}
		}
	case "ctrunc":
		if err := e.Store(c).Truncate(op.A); err != nil {
			fail(err)
		} else {
			out = Out{Kind: "XOk"}
		}
	case "discard":
		// compat ChannelStore.DiscardForRestore: pages (<= 1024 rows / 8 MiB, one
		// synchronous batch each) + a terminal partition / catalog batch.  The
		// function polls its context before every page read, i.e. BETWEEN two
		// batches: e.Poll (C09: crash clones) runs there.
		dctx := context.Context(ctx)
		if e.Poll != nil {
			dctx = pollCtx{Context: ctx, poll: e.Poll}
		}
		if err := e.Store(c).DiscardForRestore(dctx); err != nil {
			fail(err)
		} else {
			out = Out{Kind: "XOk"}
		}
	case "trim":
		// One model op (OTrim), three entry points of the same internal
		// trimPrefixThroughLimit: Mode 1 = ChannelLog.TrimPrefixThrough (only
		// without limits), Mode 2 = compat ChannelStore.TrimMessagesThroughLimit
		// (only when the boundary is already adopted, where it must behave like the
		// typed call); otherwise ChannelLog.TrimPrefixThroughLimit.
		opts := message.RetentionTrimOptions{MaxMessages: int(op.B), MaxBytes: int(op.D)}
		var res message.RetentionTrimResult
		var err error
		switch {
		case op.Mode == 1 && op.B == 0 && op.D == 0:
			res, err = e.Lease(c).TrimPrefixThrough(ctx, op.A)
		case op.Mode == 2 && op.A > 0 && e.adopted(c, op.A):
			res, err = e.Store(c).TrimMessagesThroughLimit(ctx, op.A, opts)
		default:
			res, err = e.Lease(c).TrimPrefixThroughLimit(ctx, op.A, opts)
		}
		if err != nil {
			fail(err)
		} else {
			out = Out{Kind: "XTrim", N: []uint64{res.DeletedThroughSeq, uint64(res.Deleted)}, Flag: res.More}
		}
	case "ckpt":
		if err := e.Lease(c).StoreCheckpoint(ctx, message.Checkpoint{Epoch: op.Ck.E, LogStartOffset: op.Ck.L, HW: op.Ck.H}); err != nil {
			fail(err)
		} else {
			out = Out{Kind: "XOk"}
		}
	case "ckptm":
		if err := e.Lease(c).StoreCheckpointMonotonic(ctx, message.Checkpoint{Epoch: op.Ck.E, LogStartOffset: op.Ck.L, HW: op.Ck.H}, op.A, uint64(op.B)); err != nil {
			fail(err)
		} else {
			out = Out{Kind: "XOk"}
		}
	case "release":
		e.releaseLease(c)
		out = Out{Kind: "XOk"}
	case "reopen":
		e.closeDB()
		e.open()
		out = Out{Kind: "XOk"}
	case "read":
		ms, err := e.Lease(c).Read(ctx, op.A, message.ReadOptions{Limit: int(op.B), MaxBytes: int(op.D)})
		if err != nil {
			fail(err)
		} else {
			out = Out{Kind: "XMsgs", Ms: e.msgs(ms)}
		}
	case "rread":
		ms, err := e.Lease(c).ReadReverse(ctx, op.A, message.ReadOptions{Limit: int(op.B), MaxBytes: int(op.D)})
		if err != nil {
			fail(err)
		} else {
			out = Out{Kind: "XMsgs", Ms: e.msgs(ms)}
		}
	case "get":
		m, ok, err := e.Lease(c).GetBySeq(ctx, op.A)
		if err != nil {
			fail(err)
		} else if ok {
			out = Out{Kind: "XMsgO", Opt: true, Ms: []Msg{e.msg(m)}}
		} else {
			out = Out{Kind: "XMsgO"}
		}
	case "byid":
		m, ok, err := e.Lease(c).GetByMessageID(ctx, e.mapID(op.A))
		if err != nil {
			fail(err)
		} else if ok {
			out = Out{Kind: "XMsgO", Opt: true, Ms: []Msg{e.msg(m)}}
		} else {
			out = Out{Kind: "XMsgO"}
		}
	case "bycno":
		p, err := e.Lease(c).ListByClientMsgNo(ctx, op.Cno, op.A, int(op.B))
		if err != nil {
			fail(err)
		} else {
			out = Out{Kind: "XPage", Ms: e.msgs(p.Messages), Flag: p.HasMore, N: []uint64{p.NextBeforeSeq}}
		}
	case "idem":
		h, ok, err := e.Lease(c).LookupIdempotency(ctx, message.IdempotencyKey{FromUID: op.Uid, ClientMsgNo: op.Cno})
		if err != nil {
			fail(err)
		} else if ok {
			out = Out{Kind: "XHit", Opt: true, N: []uint64{h.MessageSeq, e.unmapID(h.MessageID), h.Offset, h.PayloadHash}}
		} else {
			out = Out{Kind: "XHit"}
		}
	case "lasts":
		s, ok, err := e.Lease(c).GetLastSenderMessageSeq(ctx, op.Uid, op.A)
		if err != nil {
			fail(err)
		} else if ok {
			out = Out{Kind: "XNO", Opt: true, N: []uint64{s}}
		} else {
			out = Out{Kind: "XNO"}
		}
	case "leo":
		n, err := e.Lease(c).LEO(ctx)
		if err != nil {
			fail(err)
		} else {
			out = Out{Kind: "XN", N: []uint64{n}}
		}
	case "ret":
		s, ok, err := e.Lease(c).LoadRetentionState(ctx)
		if err != nil {
			fail(err)
		} else if ok {
			out = Out{Kind: "XTriple", Opt: true, N: []uint64{s.LocalRetentionThroughSeq, s.PhysicalRetentionThroughSeq, s.RetainedMaxSeq}}
		} else {
			out = Out{Kind: "XTriple"}
		}
	case "lck":
		s, ok, err := e.Lease(c).LoadCheckpoint(ctx)
		if err != nil {
			fail(err)
		} else if ok {
			out = Out{Kind: "XTriple", Opt: true, N: []uint64{s.Epoch, s.LogStartOffset, s.HW}}
		} else {
			out = Out{Kind: "XTriple"}
		}
	case "hist":
		pts, _, err := e.Lease(c).LoadHistory(ctx)
		if err != nil {
			fail(err)
		} else {
			o := Out{Kind: "XPairs"}
			for _, p := range pts {
				o.N = append(o.N, p.StartOffset, p.Epoch)
			}
			out = o
		}
	default:
		panic("unknown op kind " + op.K)
	}
	var dumps []Dump
	if e.NoDumps && op.K != "reopen" {
		return out, nil
	}
	switch {
	case op.K == "reopen" || op.K == "cbatch":
		for i := 0; i < NChans; i++ {
			dumps = append(dumps, e.DumpChan(i, 0, 0))
		}
	case IsMutation(op.K):
		var from uint64
		var count int
		if out.Err == 0 {
			switch {
			case out.Kind == "XApp" && out.N[2] > 0:
				from, count = out.N[0], int(out.N[2])
			case op.K == "capp" && len(op.Recs) > 0:
				from, count = out.N[0]+1, len(op.Recs)
			}
		}
		dumps = append(dumps, e.DumpChan(c, from, count))
	}
	return out, dumps
}

// ---- Coq printers of the input ---------------------------------------------------------------

func coqRec(r Rec) string {
	return vh.App("R", vh.N(r.ID), vh.HexS(r.Cno), vh.HexS(r.Uid), vh.Hex(decodeHex(r.Pl)), vh.Z(r.Ts), vh.N(uint64(r.Flags)), vh.N(r.RIdx), vh.N(r.RID))
}

func coqCk(c *Ck) string {
	if c == nil {
		return "None"
	}
	return vh.Some("(" + vh.N(c.E) + ", " + vh.N(c.L) + ", " + vh.N(c.H) + ")")
}

func coqEp(p *Ep) string {
	if p == nil {
		return "None"
	}
	return vh.Some(vh.Pair(vh.N(p.E), vh.N(p.S)))
}

func nz(i int64) string {
	return vh.Z(i)
}

func CoqOp(op Op) string {
	c := vh.N(uint64(op.C))
	switch op.K {
	case "append":
		return vh.App("OAppend", c, vh.N(uint64(op.Mode)), vh.N(op.Base), vh.ListOf(op.Recs, coqRec))
	case "apply":
		return vh.App("OApply", c, vh.N(op.Base), vh.ListOf(op.Recs, coqRec), coqCk(op.Ck), coqEp(op.Ep))
	case "capp":
		m := op.Mode // Exec maps every mode >= 2 to AppendTrusted
		if m > 2 {
			m = 2
		}
		return vh.App("OCApp", c, vh.N(uint64(m)), vh.ListOf(op.Recs, coqRec))
	case "cbatch":
		return vh.App("OCBatch", vh.ListOf(op.Items, func(it Item) string {
			return "(" + vh.N(uint64(it.C)) + ", " + vh.N(uint64(it.Mode)) + ", " + vh.ListOf(it.Recs, coqRec) + ")"
		}))
	case "trunc":
		return vh.App("OTrunc", c, vh.N(op.A))
	case "ctrunc":
		return vh.App("OCTrunc", c, vh.N(op.A))
	case "discard":
		return vh.App("ODiscard", c)
	case "trim":
		return vh.App("OTrim", c, vh.N(op.A), nz(op.B), nz(op.D))
	case "ckpt":
		return vh.App("OCkpt", c, vh.N(op.Ck.E), vh.N(op.Ck.L), vh.N(op.Ck.H))
	case "ckptm":
		return vh.App("OCkptM", c, vh.N(op.Ck.E), vh.N(op.Ck.L), vh.N(op.Ck.H), vh.N(op.A), vh.N(uint64(op.B)))
	case "release":
		return vh.App("ORelease", c)
	case "reopen":
		return "OReopen"
	case "read":
		return vh.App("ORead", c, vh.N(op.A), nz(op.B), nz(op.D))
	case "rread":
		return vh.App("ORRead", c, vh.N(op.A), nz(op.B), nz(op.D))
	case "get":
		return vh.App("OGet", c, vh.N(op.A))
	case "byid":
		return vh.App("OById", c, vh.N(op.A))
	case "bycno":
		return vh.App("OByCno", c, vh.HexS(op.Cno), vh.N(op.A), nz(op.B))
	case "idem":
		return vh.App("OIdem", c, vh.HexS(op.Uid), vh.HexS(op.Cno))
	case "lasts":
		return vh.App("OLastS", c, vh.HexS(op.Uid), vh.N(op.A))
	case "leo":
		return vh.App("OLeo", c)
	case "ret":
		return vh.App("ORet", c)
	case "lck":
		return vh.App("OLoadCk", c)
	case "hist":
		return vh.App("OHist", c)
	}
	panic("unknown op kind " + op.K)
}

// KVEnt is one physical key/value in history-local terms.
type KVEnt struct {
	Fam    string `json:"fam"`
	C      uint64 `json:"c"`
	Seq    uint64 `json:"seq,omitempty"`
	ID     uint64 `json:"id,omitempty"`
	S1     string `json:"s1,omitempty"`
	S2     string `json:"s2,omitempty"`
	A      uint64 `json:"a,omitempty"`
	B      uint64 `json:"b,omitempty"`
	Cc     uint64 `json:"cc,omitempty"`
	C2     uint64 `json:"c2,omitempty"`
	Hash   uint64 `json:"hash,omitempty"`
	Flags  uint8  `json:"fl,omitempty"`
	Pl     string `json:"pl,omitempty"`
	Ts     int64  `json:"ts,omitempty"`
	Bad    bool   `json:"bad,omitempty"`
	Ignore bool   `json:"-"`
}

// kvOf converts the physical dump to history-local entries of THIS history
// (keys of other histories in the same database are dropped).
func (e *Env) KVOf(raw []message.VerifKV) []KVEnt {
	var out []KVEnt
	prefix := fmt.Sprintf("h%d/", e.hist)
	for _, kv := range raw {
		switch kv.Fam {
		case "latest":
			continue
		case "gid":
			if kv.ID>>idShift != e.hist {
				continue
			}
			out = append(out, KVEnt{Fam: "gid", ID: e.unmapID(kv.ID), C2: e.chanIndexOfKey(kv.Chan2), Seq: kv.Seq, Bad: kv.Bad})
		case "other":
			continue // keys of other histories' channels
		default:
			if !strings.HasPrefix(kv.Chan, prefix) {
				continue
			}
			ci := e.chanIndexOfKey(kv.Chan)
			ent := KVEnt{Fam: kv.Fam, C: ci, Seq: kv.Seq, S1: kv.S1, S2: kv.S2, A: kv.A, B: kv.B, Cc: kv.C, Hash: kv.Hash, Bad: kv.Bad}
			switch kv.Fam {
			case "row":
				ent.ID = e.unmapID(kv.ID)
				ent.C2 = e.chanIndexOfID(kv.Chan2, kv.ChType)
				ent.Flags = kv.Flags
				ent.Pl = hex.EncodeToString(kv.Payload)
				ent.Ts = kv.TS
				ent.A = 0
			case "idem", "sseq":
				ent.ID = e.unmapID(kv.ID)
			case "cat":
				ent.C2 = e.chanIndexOfID(kv.S1, uint8(kv.A))
				ent.S1, ent.A = "", 0
			}
			out = append(out, ent)
		}
	}
	return out
}

func CoqKV(k KVEnt) string {
	c := vh.N(k.C)
	if k.Bad {
		return vh.App("KBad", c)
	}
	switch k.Fam {
	case "row":
		return vh.App("KRow", c, vh.N(k.Seq), vh.N(k.ID), vh.N(k.C2), vh.HexS(k.S1), vh.HexS(k.S2), vh.N(k.Hash), vh.Hex(decodeHex(k.Pl)), vh.Z(k.Ts), vh.N(uint64(k.Flags)))
	case "gid":
		return vh.App("KGid", vh.N(k.ID), vh.N(k.C2), vh.N(k.Seq))
	case "cidx":
		return vh.App("KCidx", c, vh.HexS(k.S1), vh.N(k.Seq), vh.N(k.A))
	case "idem":
		return vh.App("KIdem", c, vh.HexS(k.S1), vh.HexS(k.S2), vh.N(k.Seq), vh.N(k.ID), vh.N(k.Hash))
	case "sseq":
		return vh.App("KSseq", c, vh.HexS(k.S1), vh.N(k.Seq), vh.N(k.ID))
	case "ckpt":
		return vh.App("KCkpt", c, vh.N(k.A), vh.N(k.B), vh.N(k.Cc))
	case "ret":
		return vh.App("KRet", c, vh.N(k.A), vh.N(k.B), vh.N(k.Cc))
	case "hist":
		return vh.App("KHist", c, vh.N(k.A), vh.N(k.B))
	case "cat":
		return vh.App("KCat", c, vh.N(k.C2))
	default:
		return vh.App("KOther", c)
	}
}

func SortKV(ks []KVEnt) {
	sort.SliceStable(ks, func(i, j int) bool {
		if ks[i].Fam != ks[j].Fam {
			return ks[i].Fam < ks[j].Fam
		}
		if ks[i].C != ks[j].C {
			return ks[i].C < ks[j].C
		}
		return ks[i].Seq < ks[j].Seq
	})
}

// FinalKV dumps the physical keys of this history.
func (e *Env) FinalKV() []KVEnt {
	raw, err := e.eng.VerifDB().VerifDumpKV(e.AllKeys())
	if err != nil {
		panic(fmt.Sprintf("VerifDumpKV: %v", err))
	}
	ks := e.KVOf(raw)
	SortKV(ks)
	return ks
}

// Step is one executed op with its observations.
type Step struct {
	Out   Out    `json:"out"`
	Dumps []Dump `json:"dumps,omitempty"`
}

// FilterStats summarises the negative membership filters seen during a history.
type FilterStats struct {
	MaxPrimaryAdds uint32 `json:"max_primary_adds"`
	Overflow       bool   `json:"overflow"`
}

// RunHistory executes a whole history on a fresh channel namespace.
func RunHistory(in Input) ([]Step, []KVEnt) {
	steps, kv, _ := RunHistoryStats(in)
	return steps, kv
}

// RunHistoryStats is RunHistory plus the filter statistics.
func RunHistoryStats(in Input) ([]Step, []KVEnt, FilterStats) {
	e := BeginHistory()
	var st FilterStats
	steps := make([]Step, len(in.Ops))
	for i, op := range in.Ops {
		out, dumps := e.Exec(op)
		if in.Compact && op.K != "reopen" {
			dumps = nil
		}
		steps[i] = Step{Out: out, Dumps: dumps}
		if op.K == "append" || op.K == "capp" || op.K == "apply" {
			c := op.C
			if c < 0 || c >= NChans {
				c = 0
			}
			_, adds, over := e.Lease(c).VerifFilterStats()
			if adds > st.MaxPrimaryAdds {
				st.MaxPrimaryAdds = adds
			}
			st.Overflow = st.Overflow || over
		}
	}
	kv := e.FinalKV()
	return steps, kv, st
}

// CoqCase renders `(Ctor [E op out [dumps]; ...] [kv...])`.
func CoqCase(ctor string, in Input, steps []Step, kv []KVEnt) string {
	items := make([]string, len(in.Ops))
	for i, op := range in.Ops {
		ds := make([]string, len(steps[i].Dumps))
		for j, d := range steps[i].Dumps {
			ds[j] = d.Coq()
		}
		items[i] = vh.App("E", CoqOp(op), steps[i].Out.Coq(), vh.List(ds))
	}
	return vh.App(ctor, vh.B(in.Compact), "[\n  "+strings.Join(items, ";\n  ")+"]", vh.ListOf(kv, CoqKV))
}

// EmitConsts prints Gen/Consts_<id>.v: the constants of pkg/db/message the model
// depends on, read from the compiled package.
func EmitConsts(w io.Writer, id string) {
	_ = id
	fmt.Fprintln(w, "(* GENERATED by the C07/C08/C09 harness -emit-consts (harness/export/msgstore_C07_lib_verif.go) from the compiled /repo tree. Do not edit. *)")
	fmt.Fprintln(w, "From Coq Require Import NArith. Open Scope N_scope.")
	fmt.Fprintf(w, "Definition fnv64aOffset : N := %d.\n", uint64(message.VerifFNVOffset))
	fmt.Fprintf(w, "Definition fnv64aPrime : N := %d.\n", uint64(message.VerifFNVPrime))
	fmt.Fprintf(w, "Definition AppendStrict : N := %d.\n", message.VerifAppendStrict)
	fmt.Fprintf(w, "Definition AppendServerAllocatedMessageID : N := %d.\n", message.VerifAppendServerAllocated)
	fmt.Fprintf(w, "Definition AppendTrustedContiguous : N := %d.\n", message.VerifAppendTrustedContiguous)
	fmt.Fprintf(w, "Definition syncOnceFlag : N := %d.\n", message.VerifSyncOnceFlag)
	fmt.Fprintf(w, "Definition idempotencyMembershipPrimaryWords : N := %d.\n", message.VerifFilterPrimaryWords)
	fmt.Fprintf(w, "Definition idempotencyMembershipOverflowWords : N := %d.\n", message.VerifFilterOverflowWords)
	fmt.Fprintf(w, "Definition idempotencyMembershipPrimaryCapacity : N := %d.\n", message.VerifFilterPrimaryCapacity)
	fmt.Fprintf(w, "Definition idempotencyMembershipHashCount : N := %d.\n", message.VerifFilterHashCount)
	fmt.Fprintf(w, "(* error classes used by the harness: *)\n")
	fmt.Fprintf(w, "Definition EInvalid : N := %d.\nDefinition EConflict : N := %d.\nDefinition ECorruptValue : N := %d.\nDefinition ECorruptState : N := %d.\nDefinition EClosed : N := %d.\n",
		eInvalid, eConflict, eCorruptValue, eCorruptState, eClosed)
}
