//go:build verif

package replication

import "unsafe"

// Constants of the exchange codec for Gen/Consts_C27.v.
const (
	VerifMaxRecoveryProbeIndexes         = maxRecoveryProbeIndexes
	VerifMaxRecoveryReplacementProposals = maxRecoveryReplacementProposals
)

// VerifExchangeSizes reports the in-memory sizes of the element types the
// exchange decoders allocate slices of (for the allocation ceiling).
func VerifExchangeSizes() map[string]uintptr {
	return map[string]uintptr{
		"ExchangeItem":       unsafe.Sizeof(ExchangeItem{}),
		"ExchangeItemResult": unsafe.Sizeof(ExchangeItemResult{}),
		"EntryProbe":         unsafe.Sizeof(EntryProbe{}),
		"RecoveryProposal":   unsafe.Sizeof(RecoveryProposal{}),
		"ReplicateRequest":   unsafe.Sizeof(ReplicateRequest{}),
		"ProbeRequest":       unsafe.Sizeof(ProbeRequest{}),
		"FetchRequest":       unsafe.Sizeof(FetchRequest{}),
	}
}

// VerifExchangeBatchValidBits walks a request frame with the cursor methods of
// codec.go exactly as DecodeExchangeBatch does, but instead of stopping at an
// item whose Valid() is false it records Valid() of every item it can read.
// The bits are the oracle the Coq model takes for request.Valid().
func VerifExchangeBatchValidBits(data []byte) []bool {
	c := exchangeCursor{data: data}
	version, ok := c.uvarint()
	if !ok || version != uint64(ExchangeVersion) {
		return nil
	}
	priorityByte, ok := c.byte()
	if !ok || !ExchangePriority(priorityByte).Valid() {
		return nil
	}
	count, ok := c.count(MaxExchangeBatchItems)
	if !ok {
		return nil
	}
	var bits []bool
	for i := 0; i < count; i++ {
		_, valid := c.uvarint()
		kind, validKind := c.byte()
		if !valid || !validKind {
			return bits
		}
		switch ExchangeKind(kind) {
		case ExchangeReplicate:
			request, v := c.replicateRequest()
			if !v {
				return bits
			}
			bits = append(bits, request.Valid())
		case ExchangeProbe:
			request, v := c.probeRequest()
			if !v {
				return bits
			}
			bits = append(bits, request.Valid())
		case ExchangeFetch:
			request, v := c.fetchRequest()
			if !v {
				return bits
			}
			bits = append(bits, request.Valid())
		default:
			return bits
		}
	}
	return bits
}
