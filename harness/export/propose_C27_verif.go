//go:build verif

package propose

// Wire constants of the propose envelopes for Gen/Consts_C27.v.
const (
	VerifPayloadVersion        = payloadVersion
	VerifForwardVersionLegacy  = forwardVersionLegacy
	VerifForwardVersionClass   = forwardVersionClass
	VerifForwardVersion        = forwardVersion
	VerifForwardFlagWantResult = forwardFlagWantResult
)
