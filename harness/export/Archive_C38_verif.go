//go:build verif

package backup

// Re-exports for the /verif C38 harness (archive self-verification). Add-only;
// compiled only with -tags verif through the build overlay.

// VerifDecodeStrictJSON exposes decodeStrictJSON: the raw strict decode
// (unknown fields and trailing values rejected) that every Load* starts with.
func VerifDecodeStrictJSON(body []byte, value any) error { return decodeStrictJSON(body, value) }

// VerifValidateBackupIdentity exposes validateBackupIdentity.
func VerifValidateBackupIdentity(value string) error { return validateBackupIdentity(value) }

// VerifValidateSHA256 exposes validateSHA256.
func VerifValidateSHA256(value string) error { return validateSHA256(value) }

// VerifValidateSlotManifestKey exposes validateSlotManifestKey.
func VerifValidateSlotManifestKey(hashSlot uint16, key string) error {
	return validateSlotManifestKey(hashSlot, key)
}

// VerifValidateChunkDescriptor exposes validateChunkDescriptor.
func VerifValidateChunkDescriptor(d ChunkDescriptor) error { return validateChunkDescriptor(d) }

// Unexported constants of the package.
const (
	VerifMessageChunkManifestFormat  = messageChunkManifestFormat
	VerifMessageChunkManifestVersion = messageChunkManifestVersion
	VerifMaxMessageChunks            = maxMessageChunks
	VerifMaxStoredManifestBytes      = maxStoredManifestBytes
)
