//go:build verif

// Package wkp is the part shared by the C22 and C23 harnesses: a JSON
// round-trippable, type-agnostic rendering of WKProto frames (FrameIn), the
// conversions to and from the real frame.* packets, the printers of the Coq
// terms of Model/WKProto.v and the frame generator.
//
// It is mapped into /repo as internal/verifh/wkp by the overlay; nothing of it
// exists in /repo.
package wkp

import (
	"encoding/hex"
	"fmt"
	"math/rand/v2"
	"strings"

	"github.com/WuKongIM/WuKongIM/internal/verifh/vh"
	"github.com/WuKongIM/WuKongIM/pkg/protocol/frame"
)

// FrameIn is one frame: type number, the five header flags
// (NoPersist, RedDot, SyncOnce, DUP, HasServerVersion), the numeric fields and
// the string/byte fields (hex) in the fixed per-type order documented at Build.
type FrameIn struct {
	T  uint8    `json:"t"`
	Fl []bool   `json:"fl"`
	N  []uint64 `json:"n"`
	S  []string `json:"s"`
}

// Arity gives (#numeric, #string) fields per frame type.
var Arity = map[uint8][2]int{
	1: {3, 4}, 2: {4, 2}, 3: {4, 6}, 4: {4, 1}, 5: {9, 7}, 6: {2, 0},
	7: {0, 0}, 8: {0, 0}, 9: {1, 1}, 10: {3, 3}, 11: {3, 2}, 12: {1, 3},
}

// Types lists the twelve frame types.
var Types = []uint8{1, 2, 3, 4, 5, 6, 7, 8, 9, 10, 11, 12}

func (fi FrameIn) n(i int) uint64 {
	if i < len(fi.N) {
		return fi.N[i]
	}
	return 0
}

func (fi FrameIn) s(i int) []byte {
	if i < len(fi.S) {
		b, err := hex.DecodeString(fi.S[i])
		if err != nil {
			panic(err)
		}
		return b
	}
	return nil
}

func (fi FrameIn) fl(i int) bool { return i < len(fi.Fl) && fi.Fl[i] }

func (fi FrameIn) framer() frame.Framer {
	return frame.Framer{NoPersist: fi.fl(0), RedDot: fi.fl(1), SyncOnce: fi.fl(2), DUP: fi.fl(3), HasServerVersion: fi.fl(4)}
}

// Build makes the real packet.  Field orders:
//
//	1 CONNECT    n=[Version DeviceFlag ClientTimestamp]          s=[ClientKey DeviceID UID Token]
//	2 CONNACK    n=[ServerVersion TimeDiff ReasonCode NodeId]    s=[ServerKey Salt]
//	3 SEND       n=[Setting Expire ClientSeq ChannelType]        s=[MsgKey ClientMsgNo StreamNo ChannelID Topic Payload]
//	4 SENDACK    n=[MessageID MessageSeq ClientSeq ReasonCode]   s=[ClientMsgNo]
//	5 RECV       n=[Setting Expire MessageID MessageSeq StreamId StreamFlag Timestamp ChannelType ClientSeq]
//	             s=[MsgKey ClientMsgNo StreamNo ChannelID Topic FromUID Payload]
//	6 RECVACK    n=[MessageID MessageSeq]
//	7 PING, 8 PONG
//	9 DISCONNECT n=[ReasonCode]                                  s=[Reason]
//	10 SUB       n=[Setting ChannelType Action]                  s=[SubNo ChannelID Param]
//	11 SUBACK    n=[ChannelType Action ReasonCode]               s=[SubNo ChannelID]
//	12 EVENT     n=[Timestamp]                                   s=[Id Type Data]
//
// int64/int32 fields carry their two's-complement bit pattern.
func Build(fi FrameIn) frame.Frame {
	fr := fi.framer()
	str := func(i int) string { return string(fi.s(i)) }
	switch fi.T {
	case 1:
		return &frame.ConnectPacket{Framer: fr, Version: uint8(fi.n(0)), DeviceFlag: frame.DeviceFlag(fi.n(1)),
			ClientTimestamp: int64(fi.n(2)), ClientKey: str(0), DeviceID: str(1), UID: str(2), Token: str(3)}
	case 2:
		return &frame.ConnackPacket{Framer: fr, ServerVersion: uint8(fi.n(0)), TimeDiff: int64(fi.n(1)),
			ReasonCode: frame.ReasonCode(fi.n(2)), NodeId: fi.n(3), ServerKey: str(0), Salt: str(1)}
	case 3:
		return &frame.SendPacket{Framer: fr, Setting: frame.Setting(fi.n(0)), Expire: uint32(fi.n(1)), ClientSeq: fi.n(2),
			ChannelType: uint8(fi.n(3)), MsgKey: str(0), ClientMsgNo: str(1), StreamNo: str(2), ChannelID: str(3),
			Topic: str(4), Payload: fi.s(5)}
	case 4:
		return &frame.SendackPacket{Framer: fr, MessageID: int64(fi.n(0)), MessageSeq: fi.n(1), ClientSeq: fi.n(2),
			ReasonCode: frame.ReasonCode(fi.n(3)), ClientMsgNo: str(0)}
	case 5:
		return &frame.RecvPacket{Framer: fr, Setting: frame.Setting(fi.n(0)), Expire: uint32(fi.n(1)), MessageID: int64(fi.n(2)),
			MessageSeq: fi.n(3), StreamId: fi.n(4), StreamFlag: frame.StreamFlag(fi.n(5)), Timestamp: int32(uint32(fi.n(6))),
			ChannelType: uint8(fi.n(7)), ClientSeq: fi.n(8), MsgKey: str(0), ClientMsgNo: str(1), StreamNo: str(2),
			ChannelID: str(3), Topic: str(4), FromUID: str(5), Payload: fi.s(6)}
	case 6:
		return &frame.RecvackPacket{Framer: fr, MessageID: int64(fi.n(0)), MessageSeq: fi.n(1)}
	case 7:
		return &frame.PingPacket{Framer: fr}
	case 8:
		return &frame.PongPacket{Framer: fr}
	case 9:
		return &frame.DisconnectPacket{Framer: fr, ReasonCode: frame.ReasonCode(fi.n(0)), Reason: str(0)}
	case 10:
		return &frame.SubPacket{Framer: fr, Setting: frame.Setting(fi.n(0)), ChannelType: uint8(fi.n(1)), Action: frame.Action(fi.n(2)),
			SubNo: str(0), ChannelID: str(1), Param: str(2)}
	case 11:
		return &frame.SubackPacket{Framer: fr, ChannelType: uint8(fi.n(0)), Action: frame.Action(fi.n(1)),
			ReasonCode: frame.ReasonCode(fi.n(2)), SubNo: str(0), ChannelID: str(1)}
	case 12:
		return &frame.EventPacket{Framer: fr, Timestamp: int64(fi.n(0)), Id: str(0), Type: str(1), Data: fi.s(2)}
	}
	panic(fmt.Sprintf("wkp.Build: unknown frame type %d", fi.T))
}

// Meta is the decoded Framer's bookkeeping (not part of the wire fields).
type Meta struct {
	FrameType uint8
	RemLen    uint32
	FrameSize int64
	End       bool
}

// FromFrame renders a decoded packet (the dynamic Go type decides T).
func FromFrame(f frame.Frame) (FrameIn, Meta) {
	hx := func(b []byte) string { return hex.EncodeToString(b) }
	hs := func(s string) string { return hex.EncodeToString([]byte(s)) }
	mk := func(t uint8, fr frame.Framer, n []uint64, s []string) (FrameIn, Meta) {
		return FrameIn{T: t, Fl: []bool{fr.NoPersist, fr.RedDot, fr.SyncOnce, fr.DUP, fr.HasServerVersion}, N: n, S: s},
			Meta{FrameType: uint8(fr.FrameType), RemLen: fr.RemainingLength, FrameSize: fr.FrameSize, End: fr.End}
	}
	switch p := f.(type) {
	case *frame.ConnectPacket:
		return mk(1, p.Framer, []uint64{uint64(p.Version), uint64(p.DeviceFlag), uint64(p.ClientTimestamp)},
			[]string{hs(p.ClientKey), hs(p.DeviceID), hs(p.UID), hs(p.Token)})
	case *frame.ConnackPacket:
		return mk(2, p.Framer, []uint64{uint64(p.ServerVersion), uint64(p.TimeDiff), uint64(p.ReasonCode), p.NodeId},
			[]string{hs(p.ServerKey), hs(p.Salt)})
	case *frame.SendPacket:
		return mk(3, p.Framer, []uint64{uint64(p.Setting), uint64(p.Expire), p.ClientSeq, uint64(p.ChannelType)},
			[]string{hs(p.MsgKey), hs(p.ClientMsgNo), hs(p.StreamNo), hs(p.ChannelID), hs(p.Topic), hx(p.Payload)})
	case *frame.SendackPacket:
		return mk(4, p.Framer, []uint64{uint64(p.MessageID), p.MessageSeq, p.ClientSeq, uint64(p.ReasonCode)},
			[]string{hs(p.ClientMsgNo)})
	case *frame.RecvPacket:
		return mk(5, p.Framer, []uint64{uint64(p.Setting), uint64(p.Expire), uint64(p.MessageID), p.MessageSeq, p.StreamId,
			uint64(p.StreamFlag), uint64(uint32(p.Timestamp)), uint64(p.ChannelType), p.ClientSeq},
			[]string{hs(p.MsgKey), hs(p.ClientMsgNo), hs(p.StreamNo), hs(p.ChannelID), hs(p.Topic), hs(p.FromUID), hx(p.Payload)})
	case *frame.RecvackPacket:
		return mk(6, p.Framer, []uint64{uint64(p.MessageID), p.MessageSeq}, nil)
	case *frame.PingPacket:
		return mk(7, p.Framer, nil, nil)
	case *frame.PongPacket:
		return mk(8, p.Framer, nil, nil)
	case *frame.DisconnectPacket:
		return mk(9, p.Framer, []uint64{uint64(p.ReasonCode)}, []string{hs(p.Reason)})
	case *frame.SubPacket:
		return mk(10, p.Framer, []uint64{uint64(p.Setting), uint64(p.ChannelType), uint64(p.Action)},
			[]string{hs(p.SubNo), hs(p.ChannelID), hs(p.Param)})
	case *frame.SubackPacket:
		return mk(11, p.Framer, []uint64{uint64(p.ChannelType), uint64(p.Action), uint64(p.ReasonCode)},
			[]string{hs(p.SubNo), hs(p.ChannelID)})
	case *frame.EventPacket:
		return mk(12, p.Framer, []uint64{uint64(p.Timestamp)}, []string{hs(p.Id), hs(p.Type), hx(p.Data)})
	}
	panic(fmt.Sprintf("wkp.FromFrame: unexpected frame %T", f))
}

// ---- Coq printers (constructors of Model/WKProto.v) ---------------------------

var ctor = map[uint8]string{1: "FConnect", 2: "FConnack", 3: "FSend", 4: "FSendack", 5: "FRecv", 6: "FRecvack",
	7: "FPing", 8: "FPong", 9: "FDisconnect", 10: "FSub", 11: "FSuback", 12: "FEvent"}

func hxs(h string) string {
	b, err := hex.DecodeString(h)
	if err != nil {
		panic(err)
	}
	return CoqBytes(b)
}

// CoqBytes renders a byte string as a Coq term of type [bytes].  Coq's string
// literals cost ~0.4 ms per byte and overflow the stack near 16 KiB, so long
// periodic runs (which is what the generator produces for long fields) are
// printed as (rpt count (hx "pattern")) and the pieces joined with ++.
func CoqBytes(b []byte) string {
	if len(b) <= 96 {
		return vh.Hex(b)
	}
	var parts []string
	lit := 0 // start of the pending literal
	flush := func(end int) {
		for lit < end {
			e := lit + 512
			if e > end {
				e = end
			}
			parts = append(parts, vh.Hex(b[lit:e]))
			lit = e
		}
	}
	i := 0
	for i < len(b) {
		bestP, bestL := 0, 0
		for p := 1; p <= 4 && i+p <= len(b); p++ {
			j := i + p
			for j < len(b) && b[j] == b[j-p] {
				j++
			}
			l := (j - i) / p * p
			if l > bestL {
				bestP, bestL = p, l
			}
		}
		if bestL >= 64 {
			flush(i)
			parts = append(parts, vh.App("rpt", vh.N(uint64(bestL/bestP)), vh.Hex(b[i:i+bestP])))
			i += bestL
			lit = i
		} else {
			i++
		}
	}
	flush(len(b))
	if len(parts) == 1 {
		return parts[0]
	}
	return "(" + strings.Join(parts, " ++ ") + ")"
}

// Coq renders the frame as a term of type [frame].  The argument order of each
// constructor is: flags, numeric fields in FrameIn order, then byte fields in
// FrameIn order.
func (fi FrameIn) Coq() string {
	var b strings.Builder
	b.WriteString("(")
	b.WriteString(ctor[fi.T])
	b.WriteString(" (Flags")
	for i := 0; i < 5; i++ {
		b.WriteString(" ")
		b.WriteString(vh.B(fi.fl(i)))
	}
	b.WriteString(")")
	ar := Arity[fi.T]
	for i := 0; i < ar[0]; i++ {
		b.WriteString(" ")
		b.WriteString(vh.N(fi.n(i)))
	}
	for i := 0; i < ar[1]; i++ {
		b.WriteString(" ")
		if i < len(fi.S) {
			b.WriteString(hxs(fi.S[i]))
		} else {
			b.WriteString(hxs(""))
		}
	}
	b.WriteString(")")
	return b.String()
}

// Coq renders (Meta ftype remlen fsize end).
func (m Meta) Coq() string {
	return vh.App("Meta", vh.N(uint64(m.FrameType)), vh.N(uint64(m.RemLen)), vh.N(uint64(m.FrameSize)), vh.B(m.End))
}

// ---- generator ----------------------------------------------------------------

// GenOpts steers GenFrame.
type GenOpts struct {
	// Big allows boundary lengths 127/128/255/256 often and 16383/16384/32767/32768 rarely.
	Big bool
	// Wild allows values outside the protocol limits (over-long strings, ClientSeq >= 2^32, ...)
	// and non-zero fields that the version does not carry.
	Wild bool
	// Short keeps strings at most a dozen bytes (stream cases: many frames per case).
	Short bool
}

func genLen(r *rand.Rand, o GenOpts) int {
	if o.Short {
		if r.IntN(3) == 0 {
			return 0
		}
		return 1 + r.IntN(10)
	}
	switch k := r.IntN(100); {
	case k < 25:
		return 0
	case k < 70:
		return 1 + r.IntN(12)
	case k < 90:
		return 1 + r.IntN(48)
	case k < 97:
		if o.Big {
			return vh.Pick(r, 127, 128, 129, 255, 256, 257)
		}
		return 1 + r.IntN(64)
	default:
		if o.Big && r.IntN(4) == 0 {
			if o.Wild && r.IntN(6) == 0 {
				return vh.Pick(r, 32768, 32769, 40000)
			}
			return vh.Pick(r, 16383, 16384, 16385, 32766, 32767)
		}
		return r.IntN(3)
	}
}

func genStr(r *rand.Rand, o GenOpts) string {
	n := genLen(r, o)
	b := make([]byte, n)
	if n > 96 { // long fields are periodic so that the Coq term stays small (see CoqBytes)
		p := 1 + r.IntN(3)
		pat := vh.Bytes(r, p)
		if r.IntN(3) == 0 {
			pat[0] = vh.Pick(r, byte(0), 0x80, 0xff, 0x7f)
		}
		for i := range b {
			b[i] = pat[i%p]
		}
		return hex.EncodeToString(b)
	}
	switch r.IntN(4) {
	case 0: // ascii
		for i := range b {
			b[i] = "abcdefghijklmnopqrstuvwxyz0123456789_@-"[r.IntN(39)]
		}
	case 1: // bytes that look like length prefixes / continuation bits
		for i := range b {
			b[i] = vh.Pick(r, byte(0), 1, 2, 0x7f, 0x80, 0xff)
		}
	default:
		for i := range b {
			b[i] = byte(r.UintN(256))
		}
	}
	return hex.EncodeToString(b)
}

func genU(r *rand.Rand, bits uint) uint64 {
	v := vh.U64Edge(r)
	if bits < 64 {
		v &= (uint64(1) << bits) - 1
	}
	return v
}

func genSeq(r *rand.Rand, o GenOpts) uint64 {
	switch r.IntN(10) {
	case 0:
		return 1<<32 - 1
	case 1:
		if o.Wild || r.IntN(2) == 0 {
			return vh.Pick(r, uint64(1)<<32, uint64(1)<<32+5, ^uint64(0), uint64(1)<<63)
		}
		return uint64(r.IntN(1000))
	case 2:
		return genU(r, 64)
	default:
		return genU(r, 32)
	}
}

func genSetting(r *rand.Rand) uint64 {
	var s uint64
	if r.IntN(2) == 0 {
		s |= 1 << 1 // stream
	}
	if r.IntN(2) == 0 {
		s |= 1 << 3 // topic
	}
	if r.IntN(3) == 0 {
		s |= uint64(r.UintN(256)) &^ 0x0a
	}
	if r.IntN(16) == 0 {
		s = uint64(r.UintN(256))
	}
	return s
}

// GenFrame draws one frame of type t for protocol version v.  Unless o.Wild,
// fields which version v does not carry are left zero and every value is inside
// the protocol limits, except MessageSeq which exceeds uint32 now and then.
func GenFrame(r *rand.Rand, t uint8, v uint8, o GenOpts) FrameIn {
	fi := FrameIn{T: t, Fl: make([]bool, 5)}
	wild := func() bool { return o.Wild && r.IntN(3) == 0 }
	for i := 0; i < 4; i++ {
		fi.Fl[i] = r.IntN(2) == 0
	}
	switch t {
	case 2:
		fi.Fl[4] = r.IntN(2) == 0
		if !wild() {
			fi.Fl[0], fi.Fl[1], fi.Fl[2], fi.Fl[3] = fi.Fl[4], false, false, false
		}
	case 7, 8:
		if !wild() {
			fi.Fl[0], fi.Fl[1], fi.Fl[2], fi.Fl[3] = false, false, false, false
		}
		fi.Fl[4] = wild()
	default:
		fi.Fl[4] = wild()
	}
	ar := Arity[t]
	fi.N = make([]uint64, ar[0])
	fi.S = make([]string, ar[1])
	for i := range fi.S {
		fi.S[i] = genStr(r, o)
	}
	stream := func(setting uint64) bool { return v >= 2 && v < 5 && setting&2 != 0 }
	switch t {
	case 1:
		fi.N[0], fi.N[1], fi.N[2] = genU(r, 8), uint64(vh.Pick(r, 0, 1, 2, 99, int(r.UintN(256)))), genU(r, 64)
	case 2:
		fi.N[0], fi.N[1], fi.N[2], fi.N[3] = genU(r, 8), genU(r, 64), uint64(r.IntN(32)), genU(r, 64)
		if !fi.Fl[4] && !wild() {
			fi.N[0] = 0
		}
		if v < 4 && !wild() {
			fi.N[3] = 0
		}
	case 3:
		fi.N[0], fi.N[1], fi.N[2], fi.N[3] = genSetting(r), genU(r, 32), genU(r, 32), genU(r, 8)
		if wild() {
			fi.N[2] = genSeq(r, o)
		}
		if v < 3 && !wild() {
			fi.N[1] = 0
		}
		if !stream(fi.N[0]) && !wild() {
			fi.S[2] = ""
		}
		if fi.N[0]&8 == 0 && !wild() {
			fi.S[4] = ""
		}
	case 4:
		fi.N[0], fi.N[1], fi.N[2], fi.N[3] = genU(r, 64), genSeq(r, o), genU(r, 32), uint64(r.IntN(40))
		if wild() {
			fi.N[2] = genSeq(r, o)
		}
		switch r.IntN(6) {
		case 0, 1:
			fi.S[0] = ""
		case 2: // the usual shapes: a 36-byte uuid, a short token
			fi.S[0] = hex.EncodeToString([]byte(vh.Pick(r, "cb123456-1234-1234-1234-123456789abc", "client-msg-no", "m1")))
		}
		if r.IntN(2) == 0 { // MessageSeq whose leading bytes look like the length prefix of ClientMsgNo
			Relate(r, &fi, v, 1)
		}
	case 5:
		fi.N[0], fi.N[1], fi.N[2], fi.N[3] = genSetting(r), genU(r, 32), genU(r, 64), genSeq(r, o)
		fi.N[4], fi.N[5], fi.N[6], fi.N[7] = genU(r, 64), uint64(r.IntN(3)), genU(r, 32), genU(r, 8)
		if r.IntN(8) == 0 {
			fi.N[5] = genU(r, 8)
		}
		if wild() {
			fi.N[8] = genU(r, 64)
		}
		if v < 3 && !wild() {
			fi.N[1] = 0
		}
		if !stream(fi.N[0]) && !wild() {
			fi.S[2], fi.N[4], fi.N[5] = "", 0, 0
		}
		if fi.N[0]&8 == 0 && !wild() {
			fi.S[4] = ""
		}
	case 6:
		fi.N[0], fi.N[1] = genU(r, 64), genSeq(r, o)
	case 9:
		fi.N[0] = uint64(r.IntN(40))
	case 10:
		fi.N[0], fi.N[1], fi.N[2] = genSetting(r), genU(r, 8), uint64(r.IntN(3))
	case 11:
		fi.N[0], fi.N[1], fi.N[2] = genU(r, 8), uint64(r.IntN(3)), uint64(r.IntN(40))
	case 12:
		fi.N[0] = genU(r, 64)
	}
	return fi
}

// Periodic returns n bytes of a short random pattern, hex encoded.
func Periodic(r *rand.Rand, n int) string {
	p := 1 + r.IntN(3)
	pat := vh.Bytes(r, p)
	b := make([]byte, n)
	for i := range b {
		b[i] = pat[i%p]
	}
	return hex.EncodeToString(b)
}

// Boundary sets one string/bytes field of fi to a length at the WriteString /
// PayloadMaxSize boundary (32766, 32767, 32768) or at a varint boundary of the
// remaining length (around 16383).
func Boundary(r *rand.Rand, fi *FrameIn) {
	if len(fi.S) == 0 {
		return
	}
	i := r.IntN(len(fi.S))
	n := vh.Pick(r, 32766, 32767, 32767, 32768, 32768, 40000, 16300+r.IntN(120))
	fi.S[i] = Periodic(r, n)
}

// numeric field widths in bits, per frame type, in FrameIn.N order
var widths = map[uint8][]uint{
	1: {8, 8, 64}, 2: {8, 64, 8, 64}, 3: {8, 32, 32, 8}, 4: {64, 64, 32, 8},
	5: {8, 32, 64, 64, 64, 8, 32, 8, 64}, 6: {64, 64}, 9: {8}, 10: {8, 8, 8}, 11: {8, 8, 8}, 12: {64},
}

// seqIndex is the position of MessageSeq in FrameIn.N (its width is 32 bits up to LegacyMessageSeqVersion).
var seqIndex = map[uint8]int{4: 1, 5: 3, 6: 1}

func fieldBits(t uint8, i int, v uint8) uint {
	b := widths[t][i]
	if si, ok := seqIndex[t]; ok && si == i && v <= frame.LegacyMessageSeqVersion {
		b = 32
	}
	return b
}

// Relate makes a numeric field look like a length prefix of one of the frame's own
// strings at some byte position of its big-endian encoding: n = len(s) << (8*k) | r,
// or a neighbour of such a boundary.  Decoders with alternative layouts (SENDACK:
// core-first, then the transitional clientMsgNo-first) must not be fooled by it.
func Relate(r *rand.Rand, fi *FrameIn, v uint8, i int) {
	if len(fi.S) == 0 || i >= len(fi.N) {
		return
	}
	bits := fieldBits(fi.T, i, v)
	if bits < 16 {
		return
	}
	j := r.IntN(len(fi.S))
	l := uint64(len(fi.S[j]) / 2)
	sh := bits - 16 // the two most significant bytes, where a leading string length would sit
	if r.IntN(4) == 0 {
		sh = 8 * uint(r.IntN(int(bits/8)-1))
	}
	var n uint64
	switch r.IntN(8) {
	case 0:
		n = l<<sh - 1
	case 1:
		n = (l + 1) << sh
	case 2:
		n = (l+1)<<sh - 1
	case 3:
		n = l << sh
	case 4: // the length of the whole tail that would follow a leading string
		n = (l+uint64(r.IntN(12)))<<sh | genU(r, sh)
	default:
		n = l<<sh | genU(r, sh)
	}
	if bits < 64 {
		n &= uint64(1)<<bits - 1
	}
	fi.N[i] = n
}

// RelateAny applies Relate to MessageSeq when the type has one (most of the time) or to a random numeric field.
func RelateAny(r *rand.Rand, fi *FrameIn, v uint8) {
	if len(fi.N) == 0 {
		return
	}
	if si, ok := seqIndex[fi.T]; ok && r.IntN(4) != 0 {
		Relate(r, fi, v, si)
		return
	}
	Relate(r, fi, v, r.IntN(len(fi.N)))
}

// GenVersion draws a protocol version: 0..LatestVersion+1 mostly, any byte sometimes.
func GenVersion(r *rand.Rand) uint8 {
	if r.IntN(12) == 0 {
		return uint8(r.UintN(256))
	}
	return uint8(r.IntN(int(frame.LatestVersion) + 2))
}

// GenType draws a frame type, the larger codecs more often.
func GenType(r *rand.Rand) uint8 {
	return vh.Pick(r, uint8(1), 2, 2, 3, 3, 3, 4, 4, 5, 5, 5, 6, 7, 8, 9, 10, 11, 12, 12)
}

// ---- regenerated constants (Gen/Consts_C22.v, shared by C22 and C23) -----------

// ---- term sharing ----------------------------------------------------------------

// Interner gives repeated sub-terms (frames) a let-bound name so that the Coq
// parser reads every distinct frame of a case once: Coq needs ~0.3 ms per byte
// of literal, and a decoded frame is usually textually the input frame.
type Interner struct {
	names map[string]string
	defs  []string
}

// Ref returns the name bound to term, binding it on first use.
func (it *Interner) Ref(term string) string {
	if len(term) < 32 {
		return term
	}
	if it.names == nil {
		it.names = map[string]string{}
	}
	if n, ok := it.names[term]; ok {
		return n
	}
	n := fmt.Sprintf("x%d", len(it.defs))
	it.names[term] = n
	it.defs = append(it.defs, "let "+n+" := "+term+" in ")
	return n
}

// Wrap closes the bindings over body.
func (it *Interner) Wrap(body string) string {
	if len(it.defs) == 0 {
		return body
	}
	return "(" + strings.Join(it.defs, "") + body + ")"
}
