//go:build verif

package engine

// Seam for the /verif C09 harness (injected by the build overlay only): open
// Pebble with exactly the options Open computes, but on an injected vfs.FS so
// that crash states of the file system can be cloned and recovered.

import (
	"github.com/WuKongIM/WuKongIM/pkg/db/internal/dberrors"
	"github.com/cockroachdb/pebble/v2"
	"github.com/cockroachdb/pebble/v2/vfs"
)

// VerifOpenFS is Open on fs.
func VerifOpenFS(path string, opts Options, fs vfs.FS) (*DB, error) {
	if path == "" {
		return nil, dberrors.ErrInvalidArgument
	}
	popts := pebbleOptions(opts)
	popts.FS = fs
	popts.Logger = verifQuietLogger{}
	pdb, err := pebble.Open(path, popts)
	if err != nil {
		return nil, err
	}
	return &DB{pdb: pdb}, nil
}

type verifQuietLogger struct{}

func (verifQuietLogger) Infof(string, ...interface{})  {}
func (verifQuietLogger) Errorf(string, ...interface{}) {}
func (verifQuietLogger) Fatalf(format string, args ...interface{}) {
	panic("pebble fatal: " + format)
}
