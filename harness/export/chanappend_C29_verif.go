//go:build verif

package channelappend

// Re-exports for the /verif C29 harness (injected by the build overlay only;
// nothing of this file exists in /repo).  They expose the pure cores of the
// channel append runtime: the in-batch coalescer, completion expansion,
// append-result alignment, the per-channel writer's sequencing / reorder buffer
// and one complete appendEffect.run against caller-supplied ports.

import (
	"context"
	"time"
)

// Constants the Coq model depends on.
const (
	VerifC29StackItemLimit  = appendIdempotencyStackItemLimit
	VerifC29StackTableSize  = appendIdempotencyStackTableSize
	VerifC29FNVOffset       = uint64(idempotencyFNV64aOffset)
	VerifC29FNVPrime        = uint64(idempotencyFNV64aPrime)
	VerifC29InitialAttempt  = appendInitialAttempt
	VerifC29RecoveryAttempt = appendIdempotencyRecoveryAttempt
	VerifC29DefaultInflight = defaultAppendInflightBatchesPerChannel
)

// VerifC29Item is one prepared send as the harness describes it.
type VerifC29Item struct {
	UID     string
	CNo     string
	Payload []byte
	MID     uint64 // message id carried by the prepared command
	Alloc   bool   // serverAllocatedMessageID
	Dead    int    // 0 alive; 7 the item's context is already cancelled; 8 its deadline has passed (appendItemError != nil)
	Tag     string // copied into Command.TraceID so that ports can recognise the item
}

// VerifC29Comp is one appendItemCompletion, flattened.
type VerifC29Comp struct {
	Index     int // preparedSend.Index of completion.item
	ID        uint64
	Seq       uint64
	Reason    uint8
	Err       error
	Committed bool
	TraceErr  error
	AppID     uint64 // completion.appended.MessageID / MessageSeq
	AppSeq    uint64
}

var verifDeadCtx = func() context.Context {
	ctx, cancel := context.WithCancel(context.Background())
	cancel()
	return ctx
}()

func verifC29Prepared(ch ChannelID, items []VerifC29Item) []preparedSend {
	out := make([]preparedSend, len(items))
	for i, it := range items {
		ctx := context.Background()
		var deadline time.Time
		switch it.Dead {
		case 7:
			ctx = verifDeadCtx
		case 8:
			deadline = time.Unix(1, 0)
		}
		out[i] = preparedSend{
			Index:    i,
			Context:  ctx,
			Deadline: deadline,
			Command: SendCommand{
				FromUID: it.UID, ClientMsgNo: it.CNo, Payload: it.Payload, MessageID: it.MID,
				ChannelID: ch.ID, ChannelType: ch.Type, TraceID: it.Tag,
			},
			ServerTimestampMS:        1,
			serverAllocatedMessageID: it.Alloc,
		}
	}
	return out
}

func verifC29Flatten(cs []appendItemCompletion) []VerifC29Comp {
	out := make([]VerifC29Comp, len(cs))
	for i, c := range cs {
		out[i] = VerifC29Comp{
			Index: c.item.Index, ID: c.result.Result.MessageID, Seq: c.result.Result.MessageSeq,
			Reason: uint8(c.result.Result.Reason), Err: c.result.Err, Committed: c.committed, TraceErr: c.traceErr,
			AppID: c.appended.MessageID, AppSeq: c.appended.MessageSeq,
		}
	}
	return out
}

// VerifC29Fingerprint / VerifC29PayloadHash are the two hash functions of the coalescer.
func VerifC29Fingerprint(it VerifC29Item) uint64 {
	return logicalSendFingerprint(SendCommand{FromUID: it.UID, ClientMsgNo: it.CNo, Payload: it.Payload})
}
func VerifC29PayloadHash(p []byte) uint64 { return idempotencyPayloadHash(p) }

// VerifC29Coalesce runs hasCoalescibleIdempotentItems (only inside its
// documented bound; has = -1 otherwise) and newIdempotentAppendBatch.
// uniq lists the original positions of batch.items; owners is ownerByItem.
func VerifC29Coalesce(items []VerifC29Item) (has int, uniq []int, owners []int, ownersSet bool, originalLen int) {
	prepared := verifC29Prepared(ChannelID{ID: "c", Type: 2}, items)
	has = -1
	if len(prepared) <= appendIdempotencyStackItemLimit {
		has = 0
		if hasCoalescibleIdempotentItems(prepared) {
			has = 1
		}
	}
	batch := newIdempotentAppendBatch(prepared)
	uniq = make([]int, len(batch.items))
	for i, it := range batch.items {
		uniq[i] = it.Index
	}
	if batch.ownerByItem != nil {
		ownersSet = true
		owners = append([]int(nil), batch.ownerByItem...)
	}
	return has, uniq, owners, ownersSet, len(batch.original)
}

// VerifC29Expand runs newIdempotentAppendBatch and then expandCompletions on
// one scripted completion per unique item (unique[k] describes batch.items[k];
// its Index field is ignored and replaced by the real item).
func VerifC29Expand(items []VerifC29Item, unique []VerifC29Comp) []VerifC29Comp {
	prepared := verifC29Prepared(ChannelID{ID: "c", Type: 2}, items)
	batch := newIdempotentAppendBatch(prepared)
	if len(unique) != len(batch.items) {
		panic("VerifC29Expand: script length")
	}
	cs := make([]appendItemCompletion, len(unique))
	for k, u := range unique {
		cs[k] = appendItemCompletion{
			item:      batch.items[k],
			result:    SendBatchItemResult{Result: SendResult{MessageID: u.ID, MessageSeq: u.Seq, Reason: Reason(u.Reason)}, Err: u.Err},
			committed: u.Committed,
			traceErr:  u.TraceErr,
		}
	}
	return verifC29Flatten(batch.expandCompletions(cs))
}

// VerifC29AppendRes is one scripted AppendBatchItemResult.
type VerifC29AppendRes struct {
	ID, Seq uint64
	Err     error
}

// VerifC29ResultCompletions runs appendResultCompletions.
func VerifC29ResultCompletions(items []VerifC29Item, res []VerifC29AppendRes) []VerifC29Comp {
	prepared := verifC29Prepared(ChannelID{ID: "c", Type: 2}, items)
	r := AppendBatchResult{}
	for _, x := range res {
		r.Items = append(r.Items, AppendBatchItemResult{MessageID: x.ID, MessageSeq: x.Seq, Err: x.Err})
	}
	return verifC29Flatten(appendResultCompletions(prepared, r))
}

// VerifC29ActiveSplit runs activeAppendItems: positions that stay active and positions completed as inactive.
func VerifC29ActiveSplit(items []VerifC29Item) (active []int, inactive []VerifC29Comp) {
	prepared := verifC29Prepared(ChannelID{ID: "c", Type: 2}, items)
	a, in := activeAppendItems(prepared)
	for _, it := range a {
		active = append(active, it.Index)
	}
	return active, verifC29Flatten(in)
}

// VerifC29RunEffect runs one appendEffect against the given ports.
func VerifC29RunEffect(ctx context.Context, target AuthorityTarget, seq uint64, items []VerifC29Item, appender Appender, idem IdempotencyStore) (uint64, []VerifC29Comp) {
	eff := appendEffect{target: target, key: targetKey(target), seq: seq, items: verifC29Prepared(target.ChannelID, items)}
	ev := eff.run(ctx, appendPorts{appender: appender, idempotency: idem})
	return ev.seq, verifC29Flatten(ev.items)
}

// ---- the per-channel writer state (sequencing and reorder buffer) ----------

// VerifC29State wraps one channelState.
type VerifC29State struct{ s *channelState }

// VerifC29NewState creates the state with the two limits of channelStateLimits.
func VerifC29NewState(highWatermark, inflightLimit int) *VerifC29State {
	return &VerifC29State{s: newChannelState(AuthorityTarget{ChannelID: ChannelID{ID: "c", Type: 2}},
		channelStateLimits{pendingItemHighWatermark: highWatermark, appendInflightLimit: inflightLimit})}
}

// Enqueue appends n prepared items whose Index values are base, base+1, ...
func (v *VerifC29State) Enqueue(n, base int) {
	items := make([]preparedSend, n)
	for i := range items {
		items[i].Index = base + i
	}
	v.s.enqueuePrepared(items)
}

func (v *VerifC29State) CanAdmit(n int) bool { return v.s.canAdmit(n) }

// Next runs nextAppendBatch and returns the Index values of the batch.
func (v *VerifC29State) Next() (uint64, []int, bool) {
	seq, items, ok := v.s.nextAppendBatch()
	idx := make([]int, len(items))
	for i, it := range items {
		idx[i] = it.Index
	}
	return seq, idx, ok
}

// Record runs recordAppendCompletion on an event with n items; the event is
// recognisable afterwards through tag (stored as the Index of its first item
// and in duration).
func (v *VerifC29State) Record(seq uint64, n int, tag int) {
	ev := appendCompletedEvent{seq: seq, items: make([]appendItemCompletion, n)}
	ev.duration = time.Duration(1000 + tag)
	v.s.recordAppendCompletion(ev)
}

// Pop runs popNextAppendCompletion.
func (v *VerifC29State) Pop() (seq uint64, n int, tag int, ok bool) {
	ev, ok := v.s.popNextAppendCompletion()
	if !ok {
		return 0, 0, 0, false
	}
	return ev.seq, len(ev.items), int(ev.duration) - 1000, true
}

func (v *VerifC29State) FinishAppend(n int) { v.s.finishAppend(n) }

// VerifC29Snap is the observable part of channelState.
type VerifC29Snap struct {
	NextSeq, DrainSeq       uint64
	HasReady                bool
	ReadySeq                uint64
	Completed               int
	CompletedNil            bool
	Inflight, InflightItems int
	Pending                 int
	HasPendingWork          bool
	CanStart                bool
}

func (v *VerifC29State) Snap() VerifC29Snap {
	s := v.s
	return VerifC29Snap{
		NextSeq: s.nextAppendSeq, DrainSeq: s.nextAppendDrainSeq, HasReady: s.hasReadyAppendCompletion,
		ReadySeq: s.readyAppendCompletion.seq, Completed: len(s.completedAppends), CompletedNil: s.completedAppends == nil,
		Inflight: s.appendInflight, InflightItems: s.appendInflightItems, Pending: len(s.pendingItems),
		HasPendingWork: s.hasPendingWork(), CanStart: s.canStartAppend(),
	}
}

// ---- writer reclaim -----------------------------------------------------------------------

// VerifC29IdleState describes a channelWriter as the shard's reclaim sweep sees it.
type VerifC29IdleState struct {
	Inbox, Pending, Inflight, Completed int
	Ready, Scheduled                    bool
	Limit                               int
	IdleAt, Now, Retention              int64 // nanoseconds
}

// VerifC29IdleExpired builds a writer in that state and runs channelWriter.idleExpired.
func VerifC29IdleExpired(st VerifC29IdleState) bool {
	w := newChannelWriter(AuthorityTarget{ChannelID: ChannelID{ID: "c", Type: 2}}, channelStateLimits{appendInflightLimit: st.Limit})
	for i := 0; i < st.Inbox; i++ {
		w.inbox = append(w.inbox, submittedBatch{})
	}
	if st.Pending > 0 {
		w.state.pendingItems = make([]preparedSend, st.Pending)
	}
	if st.Inflight > 0 {
		w.state.appendInflight = st.Inflight
	}
	w.state.hasReadyAppendCompletion = st.Ready
	if st.Completed > 0 {
		w.state.completedAppends = make(map[uint64]appendCompletedEvent)
		for i := 0; i < st.Completed; i++ {
			w.state.completedAppends[uint64(100+i)] = appendCompletedEvent{seq: uint64(100 + i)}
		}
	}
	w.scheduled.Store(st.Scheduled)
	w.lastIdleUnixNano.Store(st.IdleAt)
	return w.idleExpired(time.Unix(0, st.Now), time.Duration(st.Retention))
}
