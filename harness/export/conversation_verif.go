//go:build verif

package conversation

import metadb "github.com/WuKongIM/WuKongIM/pkg/db/meta"

// VerifConversationFromMembership exposes the pure row+head -> conversation
// computation shared by List and Retry to the /verif harness (C34).
func VerifConversationFromMembership(row metadb.UserChannelMembership, head HydrationResult) (Conversation, bool) {
	return conversationFromMembership(row, head)
}

// VerifJoinVisibilityFloor exposes joinVisibilityFloor.
func VerifJoinVisibilityFloor(joinSeq uint64) uint64 { return joinVisibilityFloor(joinSeq) }

// VerifMaxMembershipFloor exposes maxMembershipFloor.
func VerifMaxMembershipFloor(values ...uint64) uint64 { return maxMembershipFloor(values...) }
