//go:build verif

package message

// Unexported constants of the send-permission code, re-exported for the /verif
// harness of C36 (harness/cmd/C36). Add-only; nothing of this exists in /repo.
const (
	VerifChannelTypePerson          = channelTypePerson
	VerifChannelTypeGroup           = channelTypeGroup
	VerifChannelTypeCustomerService = channelTypeCustomerService
	VerifChannelTypeInfo            = channelTypeInfo
	VerifChannelTypeVisitors        = channelTypeVisitors
	VerifChannelTypeAgent           = channelTypeAgent
	VerifPermissionCacheMaxEntries  = permissionCacheMaxEntries
)
